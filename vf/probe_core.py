"""Probe functions swept by xyzpy -- self-contained (stdlib + numpy/xarray inside functions).

Every call is logged (kwargs, pid, sequence number) and every returned value injectively
encodes the sorted kwargs it was called with, so any slot of any output names the call
that produced it.  The same `make(kind, kwargs)` is used by the oracle to predict what a
slot must contain.

This file is also exec'd into a throw-away namespace to get a *by-value* picklable
flavour (cloudpickle pickles functions of a non-importable module by value), so it must
not import anything from vf.
"""
import os
import json
import threading
import time
import hashlib


def _cv(v):
    """Canonical spelling of an argument value (numpy scalars == python scalars)."""
    tn = type(v).__name__
    if isinstance(v, bool) or tn == "bool_" or tn == "bool":
        return "b:%s" % bool(v)
    if isinstance(v, int) or tn.startswith(("int", "uint")):
        return "i:%d" % int(v)
    if isinstance(v, float) or tn.startswith("float"):
        return "f:%r" % float(v)
    if isinstance(v, str):
        return "s:%s" % str(v)
    if v is None:
        return "n:"
    if tn in ("datetime64", "Timestamp", "datetime"):
        import numpy as np
        if hasattr(v, "to_datetime64"):
            v = v.to_datetime64()          # (pandas Timestamp: keeps the nanoseconds)
        return "d:%d" % int(np.datetime64(v, "ns").astype("int64"))     # one spelling for numpy / pandas / stdlib dates
    if isinstance(v, (list, tuple)):
        return "l:[%s]" % ",".join(_cv(x) for x in v)
    return "o:%s" % (repr(v),)


def canon(kwargs):
    return ";".join("%s=%s" % (k, _cv(kwargs[k])) for k in sorted(kwargs))


def enc(kwargs, *tag):
    """48-bit stable id of (kwargs, tag) -- exactly representable as a float64."""
    s = canon(kwargs) + "#" + "/".join(str(t) for t in tag)
    return int.from_bytes(hashlib.blake2b(s.encode(), digest_size=6).digest(), "big")


def _nest(kwargs, shape, tag, pos=()):
    if not shape:
        return float(enc(kwargs, tag, *pos))
    return [_nest(kwargs, shape[1:], tag, pos + (i,)) for i in range(shape[0])]


def make(kind, kwargs, hidden=None):
    """The value a probe of this `kind` returns for `kwargs`.

    `hidden` names kwargs that are *excluded* from the encoding (e.g. a resource
    'version' used to manufacture conflicting data on purpose is *included*; arguments
    that merely steer the probe are excluded)."""
    if hidden:
        kwargs = {k: v for k, v in kwargs.items() if k not in hidden}
    k = kind.split(":")
    t = k[0]
    if t == "int":
        return enc(kwargs)
    if t == "float":
        return float(enc(kwargs))
    if t == "nearfloat":
        # values that differ between 'versions' only in the 7th significant figure, or (for every third setting) are
        # tiny in absolute terms and differ by a factor: conflicts that a tolerance-based comparison would wave through
        v = enc({k: x for k, x in kwargs.items() if k != "version"}) % 1000003 + 1.0
        ver = int(kwargs.get("version", 0))
        if int(v) % 3 == 0:
            return v * 1e-15 * (1 + ver)
        return v * (1.0 + 3e-7 * ver)
    if t == "intfloat":
        # whole numbers (Python ints) for even 'version', numbers with a fractional part for odd ones: a quantity whose
        # first results happen to be integers and later ones are not
        v = enc(kwargs) % 1000003
        return v if int(kwargs.get("version", 0)) % 2 == 0 else v + 0.5
    if t == "str":
        return "v%012x" % enc(kwargs)
    if t == "bool":
        return bool(enc(kwargs) & 1)
    if t == "emptymember":      # (count, indices) with nothing found: a member that is an empty list / array, or a dict
        import numpy as np
        v = float(enc(kwargs))
        return [(v, []), (v, np.array([])), (v, {"k": v}), ([], v)][enc(kwargs, "m") % 4]
    if t == "emptyseq":      # (count, indices) with nothing found: a member that is an empty list / array
        import numpy as np
        v = float(enc(kwargs))
        return [(v, []), (v, np.array([])), ([], v)][enc(kwargs, "m") % 3]
    if t == "nptime":     # numpy scalars that are not numbers: a point in time (ns), a duration, a missing time
        import numpy as np
        m = enc(kwargs, "m") % 5
        if m == 0:
            return np.datetime64(int(enc(kwargs) % 10 ** 18), "ns")
        if m == 1:
            return np.timedelta64(int(enc(kwargs) % 10 ** 9), "ms")
        if m == 2:
            return np.datetime64(int(enc(kwargs) % 20000), "D")
        if m == 3:
            return np.longdouble(enc(kwargs)) / np.longdouble(3)
        return np.datetime64(int(enc(kwargs) % 10 ** 18), "ns")
    if t == "frac":       # a float that needs all its digits (a ratio): 17 significant digits to write it down exactly
        return float(enc(kwargs)) / 3.0
    if t == "npbool":     # what a comparison of numpy scalars / ndarray.all() returns
        import numpy as np
        return np.bool_(enc(kwargs) & 1)
    if t == "complex":
        return complex(float(enc(kwargs, "re")), float(enc(kwargs, "im") % 1000003))
    if t == "tuple":      # tuple:<n>  -> n float scalars
        return tuple(float(enc(kwargs, j)) for j in range(int(k[1])))
    if t == "list":       # list:2x3 -> nested list
        shape = tuple(int(s) for s in k[1].split("x"))
        return _nest(kwargs, shape, "L")
    if t == "array":      # array:2x3 -> ndarray
        import numpy as np
        shape = tuple(int(s) for s in k[1].split("x"))
        return np.array(_nest(kwargs, shape, "L"))
    if t == "carray":     # an array whose dtype depends on the setting: real for some arguments, complex (or float32) for others
        import numpy as np
        shape = tuple(int(s) for s in k[1].split("x"))
        return _vary_dtype(np.array(_nest(kwargs, shape, "L")), enc(kwargs, "dt"))
    if t in ("iarray", "barray"):      # numpy arrays of a dtype that cannot hold NaN
        import numpy as np
        shape = tuple(int(s) for s in k[1].split("x"))
        a = np.array(_nest(kwargs, shape, "L"))
        return (a.astype("int64") % 100003) if t == "iarray" else ((a.astype("int64") % 2) == 1)
    if t == "multi":      # multi:<spec>,<spec>...  e.g. multi:s,a3,a2x2,b,t -> tuple of outputs
        import numpy as np
        out = []
        for j, spec in enumerate(k[1].split(",")):
            if spec == "s":
                out.append(float(enc(kwargs, j)))
            elif spec == "i":
                out.append(enc(kwargs, j))
            elif spec == "b":
                out.append(bool(enc(kwargs, j) & 1))
            elif spec == "t":
                out.append("v%012x" % enc(kwargs, j))
            elif spec[0] == "a":
                shape = tuple(int(s) for s in spec[1:].split("x"))
                out.append(np.array(_nest(kwargs, shape, j)))
            elif spec[0] == "c":
                shape = tuple(int(s) for s in spec[1:].split("x"))
                out.append(_vary_dtype(np.array(_nest(kwargs, shape, j)), enc(kwargs, "dt%d" % j)))
            elif spec[0] == "l":
                shape = tuple(int(s) for s in spec[1:].split("x"))
                out.append(_nest(kwargs, shape, j))
            else:
                raise ValueError(spec)
        return tuple(out)
    if t == "mixed":      # the docstring example kind: (bool, nested list, float, str)
        return (bool(enc(kwargs, 0) & 1), _nest(kwargs, (2, 3), 1), float(enc(kwargs, 2)),
                "v%012x" % enc(kwargs, 3))
    if t in ("datasetnc", "dataarraync"):
        # labelled data over an internal dim 't' WITHOUT its own coordinate (a constant may supply it)
        import numpy as np
        import xarray as xr
        n = int(k[1]) if len(k) > 1 else 3
        x = float(enc(kwargs, "x"))
        y = np.array([float(enc(kwargs, "y", i)) for i in range(n)])
        if t == "dataarraync":
            return xr.DataArray(y, dims=("t",), name="y")
        return xr.Dataset({"x": x, "y": (("t",), y)})
    if t in ("datasetvc", "dataarrayvc"):
        # labelled data whose own coordinate along 't' DEPENDS on the arguments (same length in every run, shifted
        # labels): the sweep's dataset spans the union of the labels, each run's numbers under its own labels
        import numpy as np
        import xarray as xr
        n = int(k[1]) if len(k) > 1 else 3
        off = enc(kwargs, "off") % 3
        tco = [10.0 * (i + off) for i in range(n)]
        x = float(enc(kwargs, "x"))
        y = np.array([float(enc(kwargs, "y", i)) for i in range(n)])
        if t == "dataarrayvc":
            return xr.DataArray(y, dims=("t",), coords={"t": tco}, name="y")
        return xr.Dataset({"x": x, "y": (("t",), y)}, coords={"t": tco})
    if t in ("dict", "dataset", "dataarray"):
        # x: scalar, y: 1-d over internal dim 't' of length n (coords 0..n-1 scaled by 10)
        import numpy as np
        n = int(k[1]) if len(k) > 1 else 3
        x = float(enc(kwargs, "x"))
        y = np.array([float(enc(kwargs, "y", i)) for i in range(n)])
        tco = [10.0 * i for i in range(n)]
        if t == "dict":
            return {"x": x, "y": (("t",), y), "t": tco}
        import xarray as xr
        if t == "dataarray":
            return xr.DataArray(y, dims=("t",), coords={"t": tco}, name="y")
        return xr.Dataset({"x": x, "y": (("t",), y)}, coords={"t": tco})
    raise ValueError("unknown probe kind %r" % (kind,))


def _read_ctl(path):
    if not path:
        return {}
    try:
        with open(path) as f:
            return json.load(f)
    except (OSError, ValueError):
        return {}


class ProbeFailure(RuntimeError):
    """Raised by a probe told (via its control file) to fail on a setting."""


# the exception types a failing user function may raise (some are special to iteration protocols)
FAIL_EXCS = {"ProbeFailure": ProbeFailure, "StopIteration": StopIteration, "KeyError": KeyError,
             "ZeroDivisionError": ZeroDivisionError, "StopAsyncIteration": StopAsyncIteration}


def _vary_dtype(a, sel):
    """Real float64 / complex128 (the roots of a polynomial: real for some parameters, complex for others)."""
    import numpy as np
    if sel % 2:
        return a.astype(float)
    return a.astype(float) + 1j * ((a.astype(float) % 997) + 1.0)


def probe_call(kwargs, kind, logfile=None, loglist=None, ctl=None, hidden=None):
    # a thread marked vf_nonroot plays a non-root MPI rank: the reduced value lives on rank 0 only
    # (an attribute of the thread object, not a module-level threading.local: probes are also pickled by value)
    if getattr(threading.current_thread(), "vf_nonroot", False):
        return None
    c = _read_ctl(ctl)
    key = canon(kwargs)
    rec = {"k": key, "pid": os.getpid(), "t": time.monotonic_ns()}
    if loglist is not None:
        rec["seq"] = len(loglist)
        loglist.append(rec)
    if logfile:
        fd = os.open(logfile, os.O_WRONLY | os.O_APPEND | os.O_CREAT, 0o644)
        try:
            os.write(fd, (json.dumps(rec) + "\n").encode())
        finally:
            os.close(fd)
    if c.get("seed_random") is not None:
        # a function that seeds the global random generator itself (a "reproducible" simulation)
        import random
        random.seed(c["seed_random"])
    j = c.get("jitter_us")
    if j:
        h = enc(kwargs, "jit", c.get("jitter_seed", 0)) % (int(j) + 1)
        time.sleep(h / 1e6)
    if key in c.get("fail", ()):
        exc = FAIL_EXCS.get(c.get("fail_exc"), ProbeFailure)
        raise exc("probe told to fail on " + key)
    if key in c.get("unpicklable", ()):
        return (lambda: None)          # a result that cannot be written to disk
    if c.get("nan_results"):
        # a region of the parameter space where the function has no answer: every number it returns is NaN
        v = make(kind, kwargs, hidden)
        return tuple(float("nan") for _ in v) if isinstance(v, tuple) else float("nan")
    return make(kind, kwargs, hidden)


class Probe(object):
    """Callable probe; picklable by reference (class lives in an importable module)
    when only `logfile`/`ctl` (paths) are used."""

    def __init__(self, kind="int", logfile=None, loglist=None, ctl=None, hidden=None,
                 name="probe"):
        self.kind = kind
        self.logfile = logfile
        self.loglist = loglist
        self.ctl = ctl
        self.hidden = tuple(hidden) if hidden else None
        self.__name__ = name

    def __call__(self, **kwargs):
        return probe_call(kwargs, self.kind, self.logfile, self.loglist, self.ctl, self.hidden)


def make_fn(argnames, kind="int", logfile=None, loglist=None, ctl=None, hidden=None,
            name="probe", defaults=None, kwonly=0, wrapped=False):
    """A real function with an explicit signature (for fn_args inference).

    kwonly=k makes the last k parameters keyword-only (def f(a, *, b, c)).  wrapped=True returns a functools.wraps-decorated
    wrapper around such a function: the WRAPPER is the probe (it logs the call and computes the value), the function
    underneath computes the same value but logs nothing - whoever calls the undecorated function instead of the callable
    it was given leaves no trace in the call log."""
    import functools
    defaults = defaults or {}
    parts = ["%s=%r" % (a, defaults[a]) if a in defaults else a for a in argnames]
    if kwonly:
        parts = parts[:len(parts) - kwonly] + ["*"] + parts[len(parts) - kwonly:]
    sig = ", ".join(parts)
    body = ", ".join("%s=%s" % (a, a) for a in argnames)
    src = "def %s(%s):\n    return _pc(dict(%s), _kind, _logfile, _loglist, _ctl, _hidden)\n" % (
        name, sig, body)
    ns = {"_pc": probe_call, "_kind": kind, "_logfile": None if wrapped else logfile, "_loglist": None if wrapped else loglist,
          "_ctl": ctl, "_hidden": tuple(hidden) if hidden else None,
          "__name__": globals().get("__name__", "probe_dyn")}
    exec(src, ns)
    inner = ns[name]
    if not wrapped:
        return inner
    hid = tuple(hidden) if hidden else None
    names_ = list(argnames)

    @functools.wraps(inner)
    def wrapper(*args, **kwargs):
        kw = dict(zip(names_, args))
        kw.update(kwargs)
        for a_, d_ in defaults.items():
            kw.setdefault(a_, d_)
        return probe_call(kw, kind, logfile, loglist, ctl, hid)
    return wrapper
