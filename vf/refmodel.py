"""Independent reference models and comparison helpers (the *specification*, not the code)."""
import math
import itertools

import numpy as np

try:
    import xarray as xr
except Exception:  # pragma: no cover
    xr = None


# --------------------------------------------------------------------------- #
# leaves, shapes, deep equality
# --------------------------------------------------------------------------- #

def is_xr(x):
    return xr is not None and isinstance(x, (xr.Dataset, xr.DataArray))


def is_null_leaf(v):
    if v is None:
        return True
    if isinstance(v, (float, np.floating)):
        return math.isnan(v)
    if isinstance(v, (complex, np.complexfloating)):
        return math.isnan(v.real) or math.isnan(v.imag)
    return False


def shape_of(v):
    """Array-like shape of a nested value; ragged containers give a structural shape."""
    if is_xr(v):
        if isinstance(v, xr.DataArray):
            return ("xr", tuple(v.dims), tuple(v.shape))
        return ("xr", tuple(sorted((str(k), tuple(v[k].dims), tuple(v[k].shape)) for k in v.data_vars)))
    if isinstance(v, dict):
        return shape_of(xr.Dataset(v))
    if isinstance(v, np.ndarray):
        return tuple(v.shape)
    if isinstance(v, (list, tuple)):
        subs = [shape_of(x) for x in v]
        if subs and all(s == subs[0] for s in subs) and not (subs[0] and subs[0][0] in ("xr", "ragged")):
            return (len(v),) + tuple(subs[0])
        if not subs:
            return (0,)
        return ("ragged", tuple(subs))
    return ()


def leaves(v):
    if is_xr(v):
        if isinstance(v, xr.DataArray):
            yield from np.asarray(v.values, dtype=object).ravel().tolist()
        else:
            for k in v.data_vars:
                yield from np.asarray(v[k].values, dtype=object).ravel().tolist()
    elif isinstance(v, np.ndarray):
        yield from np.asarray(v, dtype=object).ravel().tolist()
    elif isinstance(v, (list, tuple)):
        for x in v:
            yield from leaves(x)
    else:
        yield v


def is_missing_like(x, real):
    """x is an all-null placeholder shaped like the real result `real`.

    Null = NaN or None (the property allows either spelling); shape = np.shape semantics
    (an ndarray and the equivalent nested tuple have the same shape)."""
    if isinstance(real, dict):
        real = xr.Dataset(real)
    if is_xr(real):
        if not is_xr(x):
            return False
        if shape_of(x) != shape_of(real):
            return False
        return all(is_null_leaf(l) for l in leaves(x))
    if shape_of(x) != shape_of(real):
        return False
    ls = list(leaves(x))
    return all(is_null_leaf(l) for l in ls)


def _num_eq(a, b):
    if is_null_leaf(a) and is_null_leaf(b):
        # NaN == NaN; None == None; but None != NaN at a *computed* slot
        return (a is None) == (b is None)
    try:
        return bool(a == b)
    except Exception:
        return False


def deep_eq(a, b, path="$"):
    """None if equal, else a string naming the first difference."""
    if is_xr(a) or is_xr(b):
        if not (is_xr(a) and is_xr(b)):
            return "%s: %s vs %s" % (path, type(a).__name__, type(b).__name__)
        d = ds_equiv(a if isinstance(a, xr.Dataset) else a.to_dataset(name="__da__"),
                     b if isinstance(b, xr.Dataset) else b.to_dataset(name="__da__"))
        return None if d is None else "%s: %s" % (path, d)
    if isinstance(a, dict) or isinstance(b, dict):
        if not (isinstance(a, dict) and isinstance(b, dict)):
            return "%s: %s vs %s" % (path, type(a).__name__, type(b).__name__)
        if set(a) != set(b):
            return "%s: keys %s vs %s" % (path, sorted(a), sorted(b))
        for k in a:
            d = deep_eq(a[k], b[k], "%s[%r]" % (path, k))
            if d:
                return d
        return None
    a_seq = isinstance(a, (list, tuple, np.ndarray)) and not (isinstance(a, np.ndarray) and a.ndim == 0)
    b_seq = isinstance(b, (list, tuple, np.ndarray)) and not (isinstance(b, np.ndarray) and b.ndim == 0)
    if a_seq or b_seq:
        if not (a_seq and b_seq):
            return "%s: %r vs %r" % (path, _short(a), _short(b))
        if len(a) != len(b):
            return "%s: length %d vs %d" % (path, len(a), len(b))
        for i, (x, y) in enumerate(zip(a, b)):
            d = deep_eq(x, y, "%s[%d]" % (path, i))
            if d:
                return d
        return None
    def _timekind(v):
        dt = getattr(v, "dtype", None)
        return dt.kind if (dt is not None and dt.kind in "mM") else None
    if _timekind(a) or _timekind(b):
        # points in time / durations are not numbers: both sides must be numpy times of the same kind, and equal
        if _timekind(a) != _timekind(b):
            return "%s: %r vs %r (a numpy time on one side only)" % (path, a, b)
        av, bv = np.asarray(a), np.asarray(b)
        if bool(np.isnat(av)) != bool(np.isnat(bv)) or (not bool(np.isnat(av)) and av != bv):
            return "%s: %r vs %r" % (path, a, b)
        return None
    if isinstance(a, np.longdouble) or isinstance(b, np.longdouble):
        if not (np.longdouble(a) == np.longdouble(b) or (a != a and b != b)):
            return "%s: %r vs %r (extended precision)" % (path, a, b)
        return None
    if isinstance(a, np.ndarray):
        a = a.item()
    if isinstance(b, np.ndarray):
        b = b.item()
    if isinstance(a, np.generic):
        a = a.item()
    if isinstance(b, np.generic):
        b = b.item()
    if isinstance(a, str) != isinstance(b, str):
        return "%s: %r vs %r" % (path, a, b)
    if isinstance(a, bool) != isinstance(b, bool):
        return "%s: %r vs %r (bool/non-bool)" % (path, a, b)
    if not _num_eq(a, b):
        return "%s: %r vs %r" % (path, a, b)
    return None


def _short(x, n=120):
    s = repr(x)
    return s if len(s) < n else s[:n] + "..."


# --------------------------------------------------------------------------- #
# grids
# --------------------------------------------------------------------------- #

def grid_nest(axes, leaf):
    """Nested tuple over `axes` = [(name, values), ...]; leaf(point_dict) gives the slot."""
    def rec(i, point):
        if i == len(axes):
            return leaf(dict(point))
        name, vals = axes[i]
        return tuple(rec(i + 1, point + [(name, v)]) for v in vals)
    return rec(0, [])


def nest_get(nest, idx):
    for i in idx:
        nest = nest[i]
    return nest


def grid_points(axes):
    names = [a for a, _ in axes]
    for combo in itertools.product(*[v for _, v in axes]):
        yield dict(zip(names, combo))


def plain_union(values):
    vals = []
    seen = set()
    for v in values:
        if v not in seen:
            seen.add(v)
            vals.append(v)
    return vals


def sorted_union(values):
    return sorted(plain_union(values))


# --------------------------------------------------------------------------- #
# datasets
# --------------------------------------------------------------------------- #

def _norm_attr(v):
    if isinstance(v, np.ndarray):
        return _norm_attr(v.tolist())
    if isinstance(v, np.generic):
        return _norm_attr(v.item())
    if isinstance(v, (list, tuple)):
        return [_norm_attr(x) for x in v]
    if isinstance(v, float) and math.isnan(v):
        return "nan"
    return v


def attrs_equal(a, b):
    if set(a) != set(b):
        return False
    return all(_norm_attr(a[k]) == _norm_attr(b[k]) for k in a)


def _vals_equal(x, y):
    x = np.asarray(x)
    y = np.asarray(y)
    if x.shape != y.shape:
        return False
    if x.dtype.kind in "OUS" or y.dtype.kind in "OUS":
        xs = x.astype(object).ravel().tolist()
        ys = y.astype(object).ravel().tolist()
        for p, q in zip(xs, ys):
            if is_null_leaf(p) and is_null_leaf(q):
                continue
            if isinstance(p, np.generic):
                p = p.item()
            if isinstance(q, np.generic):
                q = q.item()
            if p != q:
                return False
        return True
    try:
        return bool(np.array_equal(x, y, equal_nan=True))
    except TypeError:
        return bool(np.array_equal(x, y))


def ds_equiv(a, b, check_attrs=True, check_dtype_kind=False):
    """Label-wise Dataset equality: None if equivalent, else a description.

    Dimension *order* and coordinate *order* are not compared; labels, values (NaN==NaN),
    variables, their dimension sets and attrs are."""
    if set(a.data_vars) != set(b.data_vars):
        return "data_vars %s vs %s" % (sorted(map(str, a.data_vars)), sorted(map(str, b.data_vars)))
    if set(a.dims) != set(b.dims):
        return "dims %s vs %s" % (sorted(a.dims), sorted(b.dims))
    if set(a.coords) != set(b.coords):
        return "coords %s vs %s" % (sorted(map(str, a.coords)), sorted(map(str, b.coords)))
    for d in a.dims:
        if a.sizes[d] != b.sizes[d]:
            return "size of %s: %d vs %d" % (d, a.sizes[d], b.sizes[d])
        if d in a.coords:
            la = a[d].values.tolist()
            lb = b[d].values.tolist()
            def lk(v):      # labels are compared by value: 1 and 1.0 name the same coordinate
                if isinstance(v, (bool, int, float)) and v == v:
                    return "n:%r" % float(v)
                return "o:%r" % (v,)
            if len(set(map(lk, la))) != len(la):
                return "duplicate labels along %s in first: %s" % (d, la)
            if sorted(map(lk, la)) != sorted(map(lk, lb)):
                return "labels of %s: %s vs %s" % (d, la, lb)
    try:
        b2 = b.reindex({d: a[d].values for d in a.dims if d in a.coords})
    except Exception as e:
        return "cannot align: %r" % (e,)
    for name in list(a.data_vars) + [c for c in a.coords if c not in a.dims]:
        va, vb = a[name], b2[name]
        if set(va.dims) != set(vb.dims):
            return "dims of %s: %s vs %s" % (name, va.dims, vb.dims)
        vb = vb.transpose(*va.dims)
        if not _vals_equal(va.values, vb.values):
            return "values of %s differ: %s vs %s" % (name, _short(va.values.tolist()), _short(vb.values.tolist()))
        if check_dtype_kind and va.dtype.kind != vb.dtype.kind:
            return "dtype kind of %s: %s vs %s" % (name, va.dtype, vb.dtype)
    if check_attrs and not attrs_equal(dict(a.attrs), dict(b.attrs)):
        return "attrs %r vs %r" % (dict(a.attrs), dict(b.attrs))
    return None


def df_rows(df, cols=None):
    """Multiset of rows (as sorted list of tuples of (col, canonical value))."""
    from .probe_core import _cv
    cols = sorted(df.columns) if cols is None else cols
    rows = []
    for r in df.to_dict("records"):
        rows.append(tuple((c, _cv(r[c]) if not is_null_leaf(r[c]) else "null") for c in cols))
    return sorted(rows)
