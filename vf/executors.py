"""Adversarial executors: hold every submitted task, then complete them in a chosen
permutation when the first result is requested.  Two API shapes, as xyzpy accepts:
`submit` (concurrent.futures-like, future.result()) and `apply_async` (ipyparallel-view
like, asyncresult.get())."""
import random


class _Held(object):
    def __init__(self, owner, idx):
        self._owner = owner
        self._idx = idx

    def _value(self):
        self._owner.flush()
        kind, val = self._owner.outcomes[self._idx]
        if kind == "exc":
            raise val
        return val


class _Future(_Held):
    def result(self, timeout=None):
        return self._value()


class _AsyncResult(_Held):
    def get(self, timeout=None):
        return self._value()


class _Base(object):
    def __init__(self, perm=None, perm_seed=0):
        self.tasks = []
        self.outcomes = {}
        self.perm = perm
        self.perm_seed = perm_seed
        self.completion_order = []
        self.flushes = 0

    def _order(self, n, start):
        if self.perm is not None and len(self.perm) == n and start == 0:
            return list(self.perm)
        idx = list(range(start, start + n))
        random.Random("%s|%s|%s" % (self.perm_seed, n, start)).shuffle(idx)
        return idx

    def flush(self):
        pending = [i for i in range(len(self.tasks)) if i not in self.outcomes]
        if not pending:
            return
        self.flushes += 1
        order = self._order(len(pending), pending[0])
        for i in order:
            fn, args, kwargs = self.tasks[i]
            try:
                self.outcomes[i] = ("ok", fn(*args, **kwargs))
            except Exception as e:  # delivered when that future is asked
                self.outcomes[i] = ("exc", e)
            self.completion_order.append(i)


class PermutedSubmitExecutor(_Base):
    def submit(self, fn, /, *args, **kwargs):
        self.tasks.append((fn, args, kwargs))
        return _Future(self, len(self.tasks) - 1)


class PermutedApplyAsyncView(_Base):
    def apply_async(self, fn, /, *args, **kwargs):
        self.tasks.append((fn, args, kwargs))
        return _AsyncResult(self, len(self.tasks) - 1)
