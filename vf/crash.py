"""Fork-and-kill crash enumeration on top of the file-system shim.

run_forked(fn): run fn() in a forked child of this (warm) process; the child's return value
comes back pickled through a pipe; an injected kill is os._exit(137) inside the shim's
handler, i.e. nothing is flushed, no finally/atexit runs -- like SIGKILL at that instant.
"""
import os
import sys
import pickle
import shutil
import signal
import select
import time

from . import fsshim

KILLED = 137


def snap(root):
    """{relpath: bytes | None (directory)} of a tree."""
    out = {}
    for d, dirs, files in os.walk(root):
        rel = os.path.relpath(d, root)
        if rel != ".":
            out[rel + "/"] = None
        for f in files:
            p = os.path.join(d, f)
            with open(p, "rb") as fh:
                out[os.path.normpath(os.path.join(rel, f))] = fh.read()
    return out


def restore(root, snapshot):
    for name in os.listdir(root):
        p = os.path.join(root, name)
        if os.path.isdir(p) and not os.path.islink(p):
            shutil.rmtree(p)
        else:
            os.remove(p)
    for rel in sorted(k for k, v in snapshot.items() if v is None):
        os.makedirs(os.path.join(root, rel), exist_ok=True)
    for rel, data in snapshot.items():
        if data is not None:
            p = os.path.join(root, rel)
            os.makedirs(os.path.dirname(p), exist_ok=True)
            with open(p, "wb") as fh:
                fh.write(data)


def run_forked(fn, timeout=300):
    """Returns (status, value): status in {"ok", "exc", "killed", "died", "timeout"}."""
    r, w = os.pipe()
    sys.stdout.flush()
    sys.stderr.flush()
    pid = os.fork()
    if pid == 0:
        # ---- child ----
        code = 0
        try:
            os.close(r)
            signal.alarm(0)
            try:
                val = ("ok", fn())
            except BaseException as e:      # noqa
                import traceback
                val = ("exc", (type(e).__name__, str(e)[:400], traceback.format_exc(limit=-5)[-1500:]))
            try:
                data = pickle.dumps(val)
            except Exception as e:
                data = pickle.dumps(("exc", ("PickleError", repr(e), "")))
            with os.fdopen(w, "wb", closefd=True) as f:
                f.write(data)
        except BaseException:
            code = 3
        finally:
            os._exit(code)
    # ---- parent ----
    os.close(w)
    chunks = []
    deadline = time.time() + timeout
    timed_out = False
    with os.fdopen(r, "rb", closefd=True) as f:
        while True:
            left = deadline - time.time()
            if left <= 0:
                timed_out = True
                break
            ready, _, _ = select.select([f], [], [], min(left, 5))
            if ready:
                b = os.read(f.fileno(), 1 << 20)
                if not b:
                    break
                chunks.append(b)
    if timed_out:
        try:
            os.kill(pid, signal.SIGKILL)
        except OSError:
            pass
        os.waitpid(pid, 0)
        return "timeout", None
    _, status = os.waitpid(pid, 0)
    code = os.waitstatus_to_exitcode(status)
    if code == KILLED:
        return "killed", None
    data = b"".join(chunks)
    if code != 0 or not data:
        return "died", code
    return pickle.loads(data)


class Recorder(object):
    """Handler that records the mutating events of a run."""

    def __init__(self):
        self.events = []

    def __call__(self, ev):
        if ev.mutating:
            self.events.append(repr(ev))


class KillAt(object):
    """Handler that kills the process right before its k-th mutating event (0-based)."""

    def __init__(self, k):
        self.k = k
        self.n = 0

    def __call__(self, ev):
        if ev.mutating:
            if self.n == self.k:
                os._exit(KILLED)
            self.n += 1


def record_events(root, fn):
    """Run fn under a recording shim in a forked child; returns (status, value, events)."""
    def child():
        rec = Recorder()
        fsshim.install(root, rec)
        fsshim.reset_counts()
        val = fn()
        return val, rec.events, list(fsshim.UNMONITORED)
    st, v = run_forked(child)
    if st != "ok":
        return st, v, [], []
    return "ok", v[0], v[1], v[2]


def run_killed_at(root, fn, k):
    def child():
        fsshim.install(root, KillAt(k))
        return fn()
    return run_forked(child)
