"""python -m vf.run <ID> <quick|thorough> [--replay file] [--shard i/n --out file]

Parent: fans the property's cases out over worker processes (one subprocess.run per
shard, never a Pool), merges what the monitors observed, classifies violations against
known_findings.json, writes evidence/<ID>.json and replays, prints the verdict.
"""
import os
import sys
import json
import time
import argparse
import importlib
import subprocess
import traceback
import faulthandler
import concurrent.futures

from . import common
from .common import Ctx, HOME, jhash


def load_module(pid):
    return importlib.import_module("vf.props." + pid.lower())


def run_cases(ctx, mod, only_case=None):
    """Run this process's share of the cases; returns nothing, everything lands in ctx."""
    case_timeout = getattr(mod, "CASE_TIMEOUT", {"quick": 120, "thorough": 300})[ctx.tier]
    budget = getattr(mod, "TIME_BUDGET", {"quick": 600, "thorough": 7200})[ctx.tier]
    if hasattr(mod, "setup"):
        mod.setup(ctx)
    it = [only_case] if only_case is not None else mod.cases(ctx)
    i, n = ctx.shard
    try:
        for idx, case in enumerate(it):
            if only_case is None and idx % n != i:
                continue
            if time.time() - ctx.t0 > budget:
                ctx.inconclusive_reason("time-budget-exhausted-before-all-cases-ran")
                break
            try:
                with common.time_limit(case_timeout):
                    mod.run_case(ctx, case)
            except common.CaseTimeout:
                ctx.count("case_timeouts")
                if ctx.counters["case_timeouts"] > getattr(mod, "MAX_TIMEOUTS", 0):
                    ctx.inconclusive_reason("case-watchdog-fired")
            except Exception:
                # an exception escaping run_case is a harness error, not a verdict
                ctx.count("harness_errors")
                ctx.inconclusive_reason("harness-error: " + traceback.format_exc(limit=-6)[-1500:])
                if ctx.counters["harness_errors"] >= 3:
                    break
    finally:
        if hasattr(mod, "teardown"):
            mod.teardown(ctx)
        ctx.cleanup()


def merge(parts):
    out = {"evaluations": 0, "distinct": set(), "samples": [], "counters": {}, "sets": {},
           "violations": [], "n_violations": 0, "known_hits": {}, "inconclusive": []}
    for p in parts:
        out["evaluations"] += p["evaluations"]
        out["distinct"].update(p["distinct"])
        out["samples"].extend(p["samples"][:2] if len(parts) > 1 else p["samples"])
        for k, v in p["counters"].items():
            if k.startswith("max_"):
                out["counters"][k] = max(out["counters"].get(k, 0), v)
            else:
                out["counters"][k] = out["counters"].get(k, 0) + v
        for k, v in p["sets"].items():
            out["sets"].setdefault(k, set()).update(v)
        out["violations"].extend(p["violations"])
        out["n_violations"] += p["n_violations"]
        for k, v in p["known_hits"].items():
            out["known_hits"][k] = out["known_hits"].get(k, 0) + v
        for r in p["inconclusive"]:
            if r not in out["inconclusive"]:
                out["inconclusive"].append(r)
    out["samples"] = out["samples"][:common.MAX_SAMPLES]
    return out


def main(argv=None):
    ap = argparse.ArgumentParser()
    ap.add_argument("pid")
    ap.add_argument("tier", nargs="?", default=os.environ.get("VERIF_TIER", "quick"),
                    choices=["quick", "thorough"])
    ap.add_argument("--replay")
    ap.add_argument("--shard")
    ap.add_argument("--out")
    ap.add_argument("--shards", type=int)
    args = ap.parse_args(argv)

    faulthandler.enable()
    pid = args.pid.upper()
    seed = int(os.environ.get("VERIF_SEED", "0") or 0)
    mod = load_module(pid)
    t0 = time.time()

    # ---------------- child (one shard) ----------------
    if args.shard:
        i, n = map(int, args.shard.split("/"))
        ctx = Ctx(pid, args.tier, seed, mod, shard=(i, n))
        common.assert_repo()
        run_cases(ctx, mod)
        with open(args.out, "w") as f:
            json.dump(ctx.dump(), f)
        return 0

    # ---------------- replay ----------------
    if args.replay:
        with open(args.replay) as f:
            rep = json.load(f)
        ctx = Ctx(pid, rep.get("tier", args.tier), rep.get("seed", seed), mod, replay=True)
        common.assert_repo()
        run_cases(ctx, mod, only_case=rep["case"])
        for v in ctx.violations:
            print("VIOLATION property=%s replay=%s" % (pid, args.replay))
            print("  " + v["msg"])
        for k, n in ctx.known_hits.items():
            print("KNOWN-FINDING: property=%s %s" % (pid, k))
        if ctx.inconclusive:
            print("INCONCLUSIVE property=%s reason=%s" % (pid, "; ".join(ctx.inconclusive)))
            return 2
        if not ctx.violations:
            print("replay: no violation (property=%s)" % pid)
        return 1 if ctx.violations else 0

    # ---------------- parent ----------------
    nshards = args.shards or getattr(mod, "SHARDS", {"quick": 1, "thorough": 16})[args.tier]
    nshards = max(1, min(nshards, os.cpu_count() or 1))
    parts = []
    inconclusive = []
    if nshards == 1:
        ctx = Ctx(pid, args.tier, seed, mod)
        common.assert_repo()
        run_cases(ctx, mod)
        parts.append(ctx.dump())
    else:
        scratch = os.path.join(common.SCRATCH_ROOT, "vf-%s-parts-%d" % (pid, os.getpid()))
        os.makedirs(scratch, exist_ok=True)
        env = dict(os.environ, VERIF_CHILD="1")
        shard_timeout = getattr(mod, "TIME_BUDGET", {"quick": 600, "thorough": 7200})[args.tier] + 300

        def one(i):
            out = os.path.join(scratch, "part-%d.json" % i)
            cmd = [sys.executable, "-m", "vf.run", pid, args.tier,
                   "--shard", "%d/%d" % (i, nshards), "--out", out]
            try:
                r = subprocess.run(cmd, env=env, timeout=shard_timeout,
                                   stdout=subprocess.PIPE, stderr=subprocess.PIPE)
            except subprocess.TimeoutExpired:
                return None, "shard-%d-watchdog-timeout" % i
            if r.returncode != 0 or not os.path.exists(out):
                tail = (r.stderr or b"").decode(errors="replace")[-1200:]
                return None, "shard-%d-died rc=%s: %s" % (i, r.returncode, tail)
            with open(out) as f:
                return json.load(f), None

        with concurrent.futures.ThreadPoolExecutor(nshards) as ex:
            for part, err in ex.map(one, range(nshards)):
                if part is not None:
                    parts.append(part)
                if err:
                    inconclusive.append(err)
        import shutil
        shutil.rmtree(scratch, ignore_errors=True)

    m = merge(parts) if parts else merge([])
    inconclusive.extend(m["inconclusive"])
    counters = dict(m["counters"])
    for k, v in m["sets"].items():
        counters["distinct_" + k] = len(v)

    # monitor-reach minima: a monitor that saw (almost) nothing decides nothing
    for name, mins in getattr(mod, "MIN_REACH", {}).items():
        need = mins[args.tier] if isinstance(mins, dict) else mins
        have = m["evaluations"] if name == "evaluations" else counters.get(name, 0)
        if have < need:
            inconclusive.append("monitor-reach %s=%s < %s" % (name, have, need))

    # ---- violations -> replay files ----
    out_home = os.environ.get("VERIF_OUT_DIR") or HOME   # selftest redirects outputs of mutant runs
    os.makedirs(os.path.join(out_home, "replays"), exist_ok=True)
    printed = 0
    seen_sigs = set()
    for v in m["violations"]:
        sk = jhash(v["sig"])
        if sk in seen_sigs and printed >= 1:
            continue
        seen_sigs.add(sk)
        if printed >= common.MAX_REPORTED:
            break
        path = os.path.join(out_home, "replays", "%s-%s.json" % (pid, jhash(v["case"])))
        with open(path, "w") as f:
            json.dump({"property": pid, "tier": args.tier, "seed": seed, "case": v["case"],
                       "msg": v["msg"], "sig": v["sig"]}, f, indent=1)
        print("VIOLATION property=%s replay=%s" % (pid, path))
        print("  sig=%s" % json.dumps(v["sig"], sort_keys=True))
        print("  " + v["msg"].replace("\n", "\n  ")[:1500])
        printed += 1

    if m["n_violations"] > printed:
        from collections import Counter
        cls = Counter(json.dumps({k: v["sig"].get(k) for k in ("api", "oracle", "exc", "exc_at") if k in v["sig"]}, sort_keys=True)
                      for v in m["violations"])
        print("violation classes (of the %d kept): %s" % (len(m["violations"]), "; ".join("%dx %s" % (n, c) for c, n in cls.most_common(12))))
    kf = common.load_known_findings()
    for k, n in sorted(m["known_hits"].items()):
        what = next((e["what"] for e in kf.get("known", []) if e["id"] == k), k)
        print("KNOWN-FINDING: property=%s %s [%s, matched %d executions]" % (pid, what, k, n))

    wall = time.time() - t0
    evidence = {
        "property_id": pid,
        "tier": args.tier,
        "seed": seed,
        "level": getattr(mod, "LEVEL", "exploration"),
        "coverage": {
            "evaluations": m["evaluations"],
            "distinct_nontrivial": len(m["distinct"]),
            "rule": getattr(mod, "RULE", ""),
            "samples": m["samples"],
            "exhaustive": bool(getattr(mod, "EXHAUSTIVE", {}).get(args.tier, False)) if isinstance(
                getattr(mod, "EXHAUSTIVE", None), dict) else False,
            "observed": counters,
            "known_findings_hit": m["known_hits"],
            "shards": nshards,
            "verdict": ("violated" if m["n_violations"] else
                        "inconclusive" if inconclusive else "held-on-observed"),
            "inconclusive_reasons": inconclusive,
        },
        "assumptions": list(getattr(mod, "ASSUMPTIONS", [])),
        "wall_s": round(wall, 2),
        "violations": m["n_violations"],
    }
    if hasattr(mod, "EXHAUSTIVE_NOTE"):
        evidence["coverage"]["exhaustive_note"] = mod.EXHAUSTIVE_NOTE
    os.makedirs(os.path.join(out_home, "evidence"), exist_ok=True)
    with open(os.path.join(out_home, "evidence", pid + ".json"), "w") as f:
        json.dump(evidence, f, indent=1, sort_keys=True)

    print("%s %s seed=%d: %d executions judged, %d distinct non-trivial, %d violations, "
          "%d known-finding hits, %.1fs; observed=%s" % (
              pid, args.tier, seed, m["evaluations"], len(m["distinct"]), m["n_violations"],
              sum(m["known_hits"].values()), wall,
              json.dumps({k: counters[k] for k in sorted(counters)[:14]})))

    if m["n_violations"]:
        if inconclusive:
            print("(also inconclusive: %s)" % " | ".join(inconclusive)[:3000])
        return 1
    if inconclusive:
        print("INCONCLUSIVE property=%s reason=%s" % (pid, " | ".join(inconclusive)[:3000]))
        return 2
    return 0


if __name__ == "__main__":
    sys.exit(main())
