"""File-system shim: every file operation of the real code on a sandbox directory becomes
an observable event, emitted BEFORE the operation runs.  A handler can record it, kill the
process (os._exit, flushes nothing - like SIGKILL) or park the calling actor (scheduler).

Covered: builtins.open / io.open (binary writes are unbuffered and split into up to three
chunks with an event before each), os.{stat,lstat,access,remove,unlink,rename,replace,rmdir,
mkdir,scandir,listdir,open} incl. dir_fd-relative forms used by shutil.rmtree, and the
Python entry points of HDF5 writers (h5py.File.__init__/close for writable files).
A sys.addaudithook runs alongside and counts mutating events on sandbox paths that did NOT
pass through the shim (an unmonitored mutation makes a run inconclusive, not silently blind).
"""
import os
import weakref
import io
import re
import sys
import builtins
import threading

_real = {}
_state = {"root": None, "handler": None, "installed": False, "audit": False}
_tls = threading.local()
UNMONITORED = []          # audit events on sandbox paths that bypassed the shim
COUNTS = {"events": 0, "mutating": 0}

MUTATING = {"mkdir", "create", "write", "close-w", "remove", "rmdir", "rename", "h5-open-w", "h5-close-w", "truncate"}

_TMP_RE = re.compile(r"\.tmp-\d+-[0-9a-f]{8}")


class Event(object):
    __slots__ = ("op", "path", "detail", "actor", "mutating", "path2")

    def __init__(self, op, path, detail=None, path2=None):
        self.op = op
        self.path = path
        self.detail = detail
        self.path2 = path2
        self.actor = getattr(_tls, "actor", None)
        self.mutating = op in MUTATING

    def key(self):
        return (self.op, canon_path(self.path), canon_path(self.path2) if self.path2 else None,
                self.detail if self.op == "write" else None)

    def __repr__(self):
        return "%s:%s(%s%s%s)" % (self.actor or "-", self.op, canon_path(self.path),
                                  "->" + canon_path(self.path2) if self.path2 else "",
                                  " %s" % (self.detail,) if self.detail is not None else "")


def canon_path(p):
    """Sandbox-relative path with unique temp-file suffixes normalised (deterministic traces)."""
    if p is None:
        return None
    root = _state["root"]
    if root and p.startswith(root):
        p = p[len(root):].lstrip("/") or "."
    return _TMP_RE.sub(".tmp-X", p)


def set_actor(name):
    _tls.actor = name


def _abspath(path, dir_fd=None):
    try:
        if isinstance(path, int):
            return os.readlink("/proc/self/fd/%d" % path)
        p = os.fspath(path)
        if isinstance(p, bytes):
            p = os.fsdecode(p)
        if dir_fd is not None and not os.path.isabs(p):
            base = os.readlink("/proc/self/fd/%d" % dir_fd)
            p = os.path.join(base, p)
        return os.path.abspath(p)
    except Exception:
        return None


def _inside(p):
    root = _state["root"]
    return bool(root) and p is not None and (p == root or p.startswith(root + "/"))


def emit(op, path, detail=None, path2=None):
    h = _state["handler"]
    COUNTS["events"] += 1
    ev = Event(op, path, detail, path2)
    if ev.mutating:
        COUNTS["mutating"] += 1
    if h is not None and not getattr(_tls, "muted", False):
        h(ev)
    return ev


class muted(object):
    """Harness-side file access (monitors reading ground truth) that must not create events."""

    def __enter__(self):
        self.prev = getattr(_tls, "muted", False)
        _tls.muted = True

    def __exit__(self, *a):
        _tls.muted = self.prev


class _inshim(object):
    def __enter__(self):
        self.prev = getattr(_tls, "inshim", 0)
        _tls.inshim = self.prev + 1

    def __exit__(self, *a):
        _tls.inshim = self.prev


# --------------------------------------------------------------------------- #
# file proxies
# --------------------------------------------------------------------------- #

_BY_FD = {}      # fileno of a monitored file open for writing -> weak reference to its proxy


def _sendfile(out_fd, in_fd, offset, count, *a, **k):
    """os.sendfile (shutil's fast copy path): a copy INTO a monitored file is not one atomic step - the data goes through
    the proxy, i.e. arrives in the chunks (with an event before each) that a crash or a concurrent reader can observe."""
    ref = _BY_FD.get(out_fd)
    prox = ref() if ref is not None else None
    if prox is None or prox._closed or offset is None:
        return _real["os.sendfile"](out_fd, in_fd, offset, count, *a, **k)
    data = os.pread(in_fd, count, offset)
    if data:
        prox.write(data)
        prox.flush()
    return len(data)


class _WProxy(object):
    """Binary writer with the REAL buffering semantics of open(..., "wb"): data written by the
    program sits in a user-space buffer (lost by a kill, invisible to other processes) until the
    buffer overflows, flush() or close(); the transfer to the file then happens in up to three
    chunks (1 byte, half, rest) with an event before each - the partial-write prefixes that a
    crash or a concurrent reader can observe."""
    BUFSIZE = 8192

    def __init__(self, raw, path):
        self._raw = raw
        self._path = path
        self._closed = False
        self._off = 0
        self._buf = bytearray()
        try:
            _BY_FD[raw.fileno()] = weakref.ref(self)
        except Exception:
            pass

    def write(self, b):
        mv = memoryview(b).cast("B") if not isinstance(b, (bytes, bytearray)) else memoryview(b)
        n = len(mv)
        if n == 0:
            return 0
        self._buf += mv
        if len(self._buf) > self.BUFSIZE:
            self._drain()
        return n

    def _drain(self):
        data = bytes(self._buf)
        del self._buf[:]
        n = len(data)
        if n == 0:
            return
        cuts = [n] if n == 1 else ([1, n] if n == 2 else sorted({1, n // 2, n}))
        start = 0
        for c in cuts:
            if c <= start:
                continue
            emit("write", self._path, (self._off, c - start))
            wf = _state.get("write_fault")
            if wf is not None:
                exc = wf(getattr(_tls, "actor", None), self._path, self._off, c - start)
                if exc is not None:
                    # the transfer of this chunk fails (disk full, quota, file size limit): what was written before stays
                    with _inshim():
                        self._raw.flush()
                    raise exc
            with _inshim():
                self._raw.write(data[start:c])
            self._off += c - start
            start = c

    def writelines(self, lines):
        for l in lines:
            self.write(l)

    def flush(self):
        self._drain()

    def close(self):
        if not self._closed:
            self._closed = True
            self._drain()
            emit("close-w", self._path)
            with _inshim():
                self._raw.close()

    def __del__(self):
        # like a real buffered file that is garbage collected while open: flushed and closed
        # (no events: finalisers are not scheduling points; a kill never gets here)
        try:
            if not self._closed:
                self._closed = True
                if self._buf:
                    self._raw.write(bytes(self._buf))
                self._raw.close()
        except Exception:
            pass

    @property
    def closed(self):
        return self._closed

    def __enter__(self):
        return self

    def __exit__(self, *a):
        self.close()

    def __getattr__(self, name):
        return getattr(self._raw, name)

    def writable(self):
        return True

    def readable(self):
        return False


class _RProxy(object):
    """Binary reader: one event per read call (so a reader can be interleaved between them)."""

    def __init__(self, f, path):
        self._f = f
        self._path = path

    def read(self, *a):
        emit("read", self._path)
        return self._f.read(*a)

    def readinto(self, b):
        emit("read", self._path)
        return self._f.readinto(b)

    def readline(self, *a):
        emit("read", self._path)
        return self._f.readline(*a)

    def close(self):
        return self._f.close()

    def __enter__(self):
        return self

    def __exit__(self, *a):
        self.close()

    def __iter__(self):
        return iter(self._f)

    def __getattr__(self, name):
        if name == "peek":
            raise AttributeError(name)       # make the unpickler use read/readinto/readline
        return getattr(self._f, name)


# --------------------------------------------------------------------------- #
# patched functions
# --------------------------------------------------------------------------- #

def _open(file, mode="r", buffering=-1, *args, **kwargs):
    if getattr(_tls, "inshim", 0) or isinstance(file, int):
        return _real["open"](file, mode, buffering, *args, **kwargs)
    p = _abspath(file)
    if not _inside(p):
        return _real["open"](file, mode, buffering, *args, **kwargs)
    writing = any(c in mode for c in "wax+")
    binary = "b" in mode
    if writing:
        exists = _real["os.path.exists"](p)
        emit("create" if ("w" in mode or "x" in mode or not exists) else "open-a", p, mode)
        with _inshim():
            if binary and "+" not in mode:
                raw = _real["open"](file, mode, 0, *args, **kwargs)
                return _WProxy(raw, p)
            f = _real["open"](file, mode, buffering, *args, **kwargs)
        return _TextW(f, p)
    emit("open-r", p)
    with _inshim():
        f = _real["open"](file, mode, buffering, *args, **kwargs)
    if binary:
        return _RProxy(f, p)
    return f


class _TextW(object):
    """Text / update-mode writer: passthrough with events on write and close (no splitting)."""

    def __init__(self, f, path):
        self._f = f
        self._path = path
        self._closed = False

    def write(self, s):
        emit("write", self._path, (None, len(s)))
        with _inshim():
            r = self._f.write(s)
            self._f.flush()
        return r

    def close(self):
        if not self._closed:
            self._closed = True
            emit("close-w", self._path)
            with _inshim():
                self._f.close()

    def __enter__(self):
        return self

    def __exit__(self, *a):
        self.close()

    def __iter__(self):
        return iter(self._f)

    def __getattr__(self, name):
        return getattr(self._f, name)


def _wrap_path_fn(name, op, two=False):
    real = _real[name]

    def fn(path, *args, **kwargs):
        if getattr(_tls, "inshim", 0):
            return real(path, *args, **kwargs)
        if two:
            dst = args[0] if args else kwargs.get("dst")
            p = _abspath(path, kwargs.get("src_dir_fd"))
            p2 = _abspath(dst, kwargs.get("dst_dir_fd"))
            if _inside(p) or _inside(p2):
                emit(op, p, None, p2)
        else:
            p = _abspath(path, kwargs.get("dir_fd"))
            if _inside(p):
                emit(op, p)
        with _inshim():
            return real(path, *args, **kwargs)
    fn.__name__ = real.__name__
    return fn


def _os_open(path, flags, mode=0o777, *, dir_fd=None):
    if getattr(_tls, "inshim", 0):
        return _real["os.open"](path, flags, mode, dir_fd=dir_fd)
    p = _abspath(path, dir_fd)
    if _inside(p):
        if flags & (os.O_WRONLY | os.O_RDWR | os.O_CREAT | os.O_TRUNC):
            emit("create", p, "os.open")
        else:
            emit("open-r", p)
    with _inshim():
        return _real["os.open"](path, flags, mode, dir_fd=dir_fd)


def _audit(event, args):
    if not _state["root"] or getattr(_tls, "inshim", 0) or getattr(_tls, "muted", False):
        return
    try:
        if event == "open":
            path, mode, flags = args
            if isinstance(path, int) or path is None:
                return
            if flags is not None and not (flags & (os.O_WRONLY | os.O_RDWR | os.O_CREAT | os.O_TRUNC)):
                return
            p = _abspath(path)
        elif event in ("os.remove", "os.rmdir", "os.mkdir", "os.truncate"):
            p = _abspath(args[0], args[1] if len(args) > 1 and isinstance(args[1], int) and args[1] >= 0 else None)
        elif event == "os.rename":
            p = _abspath(args[0])
        else:
            return
        if _inside(p):
            UNMONITORED.append((event, canon_path(p)))
    except Exception:
        pass


def install(root, handler=None):
    """Activate the shim for `root` (idempotent patching; root/handler can be switched)."""
    _state["root"] = os.path.realpath(root) if root else None
    _state["handler"] = handler
    if _state["installed"]:
        return
    _real["open"] = builtins.open
    _real["os.path.exists"] = os.path.exists
    for n in ("stat", "lstat", "access", "remove", "unlink", "rename", "replace", "rmdir", "mkdir", "scandir", "listdir", "open"):
        _real["os." + n] = getattr(os, n)
    builtins.open = _open
    io.open = _open
    os.stat = _wrap_path_fn("os.stat", "stat")
    os.lstat = _wrap_path_fn("os.lstat", "stat")
    os.access = _wrap_path_fn("os.access", "stat")
    os.remove = _wrap_path_fn("os.remove", "remove")
    os.unlink = _wrap_path_fn("os.unlink", "remove")
    os.rmdir = _wrap_path_fn("os.rmdir", "rmdir")
    os.mkdir = _wrap_path_fn("os.mkdir", "mkdir")
    os.scandir = _wrap_path_fn("os.scandir", "list")
    os.listdir = _wrap_path_fn("os.listdir", "list")
    os.rename = _wrap_path_fn("os.rename", "rename", two=True)
    os.replace = _wrap_path_fn("os.replace", "rename", two=True)
    os.open = _os_open
    if hasattr(os, "sendfile"):
        _real["os.sendfile"] = os.sendfile
        os.sendfile = _sendfile
    _install_h5()
    if not _state["audit"]:
        sys.addaudithook(_audit)
        _state["audit"] = True
    _state["installed"] = True


def _install_h5():
    try:
        import h5py
    except Exception:
        return
    F = h5py.File
    if getattr(F.__init__, "__vf_shim__", False):
        return
    orig_init, orig_close = F.__init__, F.close

    def __init__(self, name, mode="r", *a, **k):
        p = _abspath(name) if isinstance(name, (str, bytes, os.PathLike)) else None
        self._vf_wpath = None
        if _inside(p) and not getattr(_tls, "inshim", 0):
            if mode in ("w", "w-", "x", "a", "r+"):
                emit("h5-open-w", p, mode)
                self._vf_wpath = p
            else:
                emit("open-r", p)
        with _inshim():
            return orig_init(self, name, mode, *a, **k)
    __init__.__vf_shim__ = True

    def close(self):
        wp = getattr(self, "_vf_wpath", None)
        if wp and self.id.valid and not getattr(_tls, "inshim", 0):
            self._vf_wpath = None
            emit("h5-close-w", wp)
        with _inshim():
            return orig_close(self)

    F.__init__ = __init__
    F.close = close


def set_handler(handler):
    _state["handler"] = handler


def set_write_fault(fn):
    """fn(actor, path, offset, count) -> exception to raise instead of transferring that chunk, or None."""
    _state["write_fault"] = fn


def set_root(root):
    _state["root"] = os.path.realpath(root) if root else None


def reset_counts():
    COUNTS["events"] = 0
    COUNTS["mutating"] = 0
    del UNMONITORED[:]
