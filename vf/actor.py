"""python -m vf.actor <spec file> -- perform ONE crop step in a fresh interpreter that only
knows the crop's name and directory (plus, for a sow, the workload to sow).

The outcome is pickled to spec["out"] as ("ok", value) or ("exc", type name, message).
"""
import os
import sys
import json
import pickle


def main():
    with open(sys.argv[1], "rb") as f:
        raw = f.read()
    spec = json.loads(raw.decode()) if raw[:1] == b"{" else pickle.loads(raw)     # (C10's strace victims are given JSON)
    import xyzpy
    from vf import cropkit, common
    common.assert_repo()
    op = spec["op"]
    out = spec["out"]
    try:
        with common.quiet():
            if op == "sow":
                fn = cropkit.build_probe(spec["kind"], spec["logfile"], ctl=spec.get("ctl"), name=spec.get("fn_name", "probe"),
                                         by_value=spec.get("by_value", True))
                crop = xyzpy.Crop(fn=fn, name=spec["name"], parent_dir=spec["parent"], **spec.get("ctor", {}))
                if spec.get("shuffle_attr") is not None:
                    crop.shuffle = spec["shuffle_attr"]
                cropkit.sow(crop, spec["w"], shuffle_at_sow=spec.get("shuffle_at_sow"), **spec.get("sowkw", {}))
                val = None
            else:
                crop = xyzpy.Crop(name=spec["name"], parent_dir=spec["parent"])
                if op == "grow_fn":
                    for i in spec["ids"]:
                        xyzpy.grow(i, crop=crop, verbosity=0, **spec.get("kw", {}))
                    val = None
                elif op == "grow_cwd":
                    # grow() run from inside the crop folder without a Crop object
                    os.chdir(crop.location)
                    for i in spec["ids"]:
                        xyzpy.grow(i, verbosity=0)
                    val = None
                elif op == "crop_grow":
                    crop.grow(list(spec["ids"]), **spec.get("kw", {}))
                    val = None
                elif op == "grow_missing":
                    crop.grow_missing(**spec.get("kw", {}))
                    val = None
                elif op == "check_bad":
                    val = crop.check_bad()
                elif op == "reap":
                    val = crop.reap(**spec.get("kw", {}))
                elif op == "progress":
                    val = (crop.num_sown_batches, crop.num_results, crop.missing_results(), crop.is_ready_to_reap())
                else:
                    raise ValueError(op)
        res = ("ok", val)
    except BaseException as e:  # noqa
        res = ("exc", type(e).__name__, str(e)[:500])
    with open(out, "wb") as f:
        pickle.dump(res, f)


if __name__ == "__main__":
    main()
