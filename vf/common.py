"""Shared harness: context, verdicts, evidence, known findings, replay, sharding.

A property module (vf/props/cXX.py) provides

    PID, LEVEL, RULE, ASSUMPTIONS, TECHNIQUE
    MIN_REACH : {counter name: {"quick": n, "thorough": n}}  (monitor-reach minima)
    SHARDS    : {"quick": k, "thorough": k}
    cases(ctx)            -> iterator of JSON-serialisable case dicts (deterministic in seed/tier)
    run_case(ctx, case)   -> runs the real code, feeds ctx.observe / ctx.violation

Verdicts are three-valued: exit 0 held / exit 1 VIOLATION / exit 2 INCONCLUSIVE.
"""
import os
import re
import sys
import json
import time
import random
import hashlib
import signal
import shutil
import tempfile
import traceback
import contextlib

HOME = os.environ.get("VERIF_HOME") or os.path.dirname(os.path.dirname(os.path.abspath(__file__)))
REPO = os.path.realpath(os.environ.get("VERIF_REPO", "/repo"))
SCRATCH_ROOT = os.environ.get("VERIF_SCRATCH") or tempfile.gettempdir()

MAX_SAMPLES = 6
MAX_REPORTED = 8


def jhash(obj):
    return hashlib.md5(json.dumps(obj, sort_keys=True, default=repr).encode()).hexdigest()[:16]


def jsonable(x):
    """Best-effort conversion to something json.dumps accepts (for witnesses)."""
    import numpy as np
    if isinstance(x, dict):
        return {str(k): jsonable(v) for k, v in x.items()}
    if isinstance(x, (list, tuple, set, frozenset)):
        return [jsonable(v) for v in x]
    if isinstance(x, np.ndarray):
        return jsonable(x.tolist())
    if isinstance(x, np.generic):
        return jsonable(x.item())
    if isinstance(x, float):
        if x != x:
            return "nan"
        if x in (float("inf"), float("-inf")):
            return str(x)
        return x
    if isinstance(x, complex):
        return [x.real, x.imag]
    if isinstance(x, (str, int, bool)) or x is None:
        return x
    return repr(x)[:300]


def short(x, n=400):
    s = x if isinstance(x, str) else repr(x)
    return s if len(s) <= n else s[:n] + "...<%d more>" % (len(s) - n)


def exc_sig(e):
    """Mechanism signature of an exception: type, message head, innermost xyzpy frame."""
    frame = ""
    tb = e.__traceback__
    for fs in traceback.extract_tb(tb):
        fn = fs.filename.replace("\\", "/")
        if "/xyzpy/" in fn:
            frame = "%s:%s" % (fn.split("/xyzpy/")[-1], fs.name)
    msg = str(e).strip().splitlines()[0] if str(e).strip() else ""
    return {"exc": type(e).__name__, "exc_msg": msg[:160], "exc_at": frame}


class CaseTimeout(Exception):
    pass


class Ctx:
    def __init__(self, pid, tier, seed, module=None, shard=(0, 1), replay=False):
        self.pid = pid
        self.tier = tier
        self.seed = seed
        self.module = module
        self.shard = shard
        self.replay = replay
        self.t0 = time.time()
        self.evaluations = 0
        self.distinct = set()
        self.samples = []
        self.counters = {}
        self.sets = {}
        self.violations = []      # dicts: case, msg, sig
        self.known_hits = {}      # finding id -> count
        self.inconclusive = []    # reasons
        self._kf = load_known_findings()
        self._tmpdirs = []

    # ----- randomness -----
    def rng(self, *key):
        return random.Random("%s|%s|%s" % (self.seed, self.pid, "|".join(map(str, key))))

    @property
    def quick(self):
        return self.tier == "quick"

    def pick(self, quick, thorough):
        return quick if self.tier == "quick" else thorough

    # ----- counters -----
    def count(self, name, n=1):
        self.counters[name] = self.counters.get(name, 0) + n

    def seen(self, name, key):
        """Track a set of distinct observed things (reported as a count)."""
        s = self.sets.setdefault(name, set())
        s.add(key if isinstance(key, str) else jhash(key))

    def observe(self, case, key=None, nontrivial=True, info=None):
        """One oracle evaluation of one execution."""
        self.evaluations += 1
        if nontrivial:
            self.distinct.add(jhash(key if key is not None else case))
        if len(self.samples) < MAX_SAMPLES or (self.evaluations % 997 == 0 and len(self.samples) < 3 * MAX_SAMPLES):
            s = {"case": jsonable(case)}
            if info is not None:
                s["observed"] = jsonable(info)
            if len(json.dumps(s)) > 4000:
                s = {"case": short(json.dumps(jsonable(case)), 1500),
                     "observed": short(json.dumps(jsonable(info)), 1500)}
            self.samples.append(s)

    # ----- verdicts -----
    def violation(self, case, msg, sig=None):
        sig = dict(sig or {})
        sig.setdefault("kind", "oracle")
        kf = self._match_known(sig, msg)
        if kf is not None:
            self.known_hits[kf["id"]] = self.known_hits.get(kf["id"], 0) + 1
            return False
        self.violations.append({"case": jsonable(case), "msg": short(msg, 2000), "sig": jsonable(sig)})
        return True

    def check(self, cond, case, msg, sig=None):
        if not cond:
            self.violation(case, msg() if callable(msg) else msg, sig)
        return bool(cond)

    def inconclusive_reason(self, reason):
        if reason not in self.inconclusive:
            self.inconclusive.append(reason)

    def _match_known(self, sig, msg):
        for kf in self._kf.get("known", []):
            if kf.get("property") != self.pid:
                continue
            ok = True
            for k, pat in kf.get("match", {}).items():
                val = msg if k == "msg" else sig.get(k)
                if val is None or re.search(pat, str(val)) is None:
                    ok = False
                    break
            if ok:
                return kf
        return None

    # ----- scratch -----
    def mkdtemp(self, tag="w"):
        d = tempfile.mkdtemp(prefix="vf-%s-%s-" % (self.pid, tag), dir=SCRATCH_ROOT)
        self._tmpdirs.append(d)
        return d

    def rmtree(self, d):
        shutil.rmtree(d, ignore_errors=True)
        if d in self._tmpdirs:
            self._tmpdirs.remove(d)

    @contextlib.contextmanager
    def tmpdir(self, tag="w"):
        d = self.mkdtemp(tag)
        try:
            yield d
        finally:
            self.rmtree(d)

    def cleanup(self):
        for d in list(self._tmpdirs):
            self.rmtree(d)

    # ----- serialisation for shards -----
    def dump(self):
        return {
            "evaluations": self.evaluations,
            "distinct": sorted(self.distinct),
            "samples": self.samples[:MAX_SAMPLES],
            "counters": self.counters,
            "sets": {k: sorted(v) for k, v in self.sets.items()},
            "violations": self.violations[:200],
            "n_violations": len(self.violations),
            "known_hits": self.known_hits,
            "inconclusive": self.inconclusive,
            "wall_s": time.time() - self.t0,
        }


def load_known_findings():
    p = os.path.join(HOME, "known_findings.json")
    try:
        with open(p) as f:
            return json.load(f)
    except FileNotFoundError:
        return {"known": [], "fixed": []}


@contextlib.contextmanager
def time_limit(seconds):
    """Per-case wall-clock watchdog: firing is *inconclusive*, never a violation."""
    def handler(signum, frame):
        raise CaseTimeout("case exceeded %ss" % seconds)
    old = signal.signal(signal.SIGALRM, handler)
    signal.alarm(int(seconds))
    try:
        yield
    finally:
        signal.alarm(0)
        signal.signal(signal.SIGALRM, old)


@contextlib.contextmanager
def quiet():
    """Silence stdout/stderr chatter (progress bars, prints) of the code under test."""
    devnull = open(os.devnull, "w")
    old_out, old_err = sys.stdout, sys.stderr
    sys.stdout, sys.stderr = devnull, devnull
    try:
        yield
    finally:
        sys.stdout, sys.stderr = old_out, old_err
        devnull.close()


def assert_repo():
    import xyzpy
    p = os.path.realpath(xyzpy.__file__)
    if not p.startswith(REPO + os.sep):
        raise RuntimeError("xyzpy imported from %s, expected under %s" % (p, REPO))
    return p
