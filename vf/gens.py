"""Seeded generators for grids, case sets and constants (plain random.Random, exact replay)."""
import itertools

ARG_POOL = ["a", "b", "c", "d", "e", "g", "n", "k", "p", "q", "beta", "Z", "m_1", "dt", "nx", "x0"]
CONST_POOL = ["c0", "c1", "c2", "kappa", "W"]
STR_POOL = ["u", "v", "w", "aa", "ab", "zz", "Q", "left", "right", "x y", "é", "10", "9"]


def gen_values(rng, n, vtype):
    if vtype == "int":
        return rng.sample(range(-6, 40), n)
    if vtype == "float":
        pool = [round(-3.75 + 0.5 * i + 0.001 * (i % 7), 3) for i in range(40)]
        return rng.sample(pool, n)
    if vtype == "str":
        return rng.sample(STR_POOL, n)
    if vtype == "bool":
        return rng.sample([True, False], min(n, 2))
    if vtype == "npint":
        import numpy as np
        return [np.int64(v) for v in rng.sample(range(-6, 40), n)]
    if vtype == "npfloat":
        import numpy as np
        return [np.float64(v) for v in gen_values(rng, n, "float")]
    if vtype == "tuple":
        return [tuple(t) for t in rng.sample([(1, 2), (2, 1), (0,), (), ("a", 1), (3, 4, 5)], n)]
    if vtype == "longfloat":
        # floats that need all their digits (sums, thirds, neighbours that differ only beyond the 12th decimal)
        pool = [0.1 + 0.2, 0.3, 1 / 3, 2 / 3, 0.1 * 3 + 1e-13, 1 / 7, 3.141592653589793, 0.7000000000000001, 0.7, 1e-13, 2e-13, -1 / 3]
        return rng.sample(pool, n)
    if vtype == "longstr":
        # long labels (paths, run names) that agree in their first 30 characters and differ only at the very end
        return ["experiment/batch-2024/config-alpha-run-%03d" % i for i in rng.sample(range(40), n)]
    if vtype == "strx":
        return rng.sample(STR_POOL + ["", " ", "None", "nan"], n)
    if vtype == "mixed":
        vals = gen_values(rng, n, "int")
        out = []
        for i, v in enumerate(vals):
            out.append([v, v + 0.25, "s%d" % v][rng.randrange(3)])
        return out
    raise ValueError(vtype)


def gen_shuffle(rng, none_weight=2):
    """A shuffle option: off, True, or an integer seed -- including the edge seeds 0 and 1."""
    r = rng.random()
    if r < 0.07:
        return 0
    if r < 0.12:
        return 1
    return rng.choice([False] * none_weight + [True, rng.randint(2, 9999)])


def gen_vtype(rng, allow_mixed=False, exotic=False):
    r = rng.random()
    if exotic and r < 0.25:
        # legitimate but unusual argument values: booleans, numpy scalars, tuples, empty / odd strings
        return rng.choice(["bool", "npint", "npfloat", "tuple", "strx", "longfloat", "longfloat", "longstr"])
    if allow_mixed and r < 0.06:
        return "mixed"
    return "int" if r < 0.45 else "float" if r < 0.75 else "str"


def gen_combos(rng, nargs=(1, 5), nvals=(1, 4), max_settings=256, names=None, allow_mixed=False,
               sortable_only=False, exotic=False):
    k = rng.randint(*nargs)
    names = list(names) if names else rng.sample(ARG_POOL, k)
    while True:
        combos = []
        for a in names[:k]:
            vt = gen_vtype(rng, allow_mixed and not sortable_only, exotic)
            nv = rng.randint(*nvals)
            combos.append([a, gen_values(rng, min(nv, 2) if vt == "bool" else nv, vt)])
        n = 1
        for _, v in combos:
            n *= len(v)
        if n <= max_settings:
            return combos


def n_settings(combos, cases=None):
    n = 1
    for _, v in combos or ():
        n *= len(v)
    return n * (len(cases) if cases else 1)


def gen_constants(rng, nmax=3, exclude=()):
    k = rng.randint(0, nmax)
    names = [c for c in CONST_POOL if c not in exclude]
    out = {}
    for name in rng.sample(names, min(k, len(names))):
        out[name] = [rng.randint(-9, 9), round(rng.uniform(-2, 2), 3), rng.choice(STR_POOL),
                     # a constant whose printed form is long (a table of numbers, a path)
                     rng.choice([tuple(range(100, 118)), "/scratch/projects/xyz/run-2024/input-parameters.json"])][rng.randrange(4)]
    return out


def gen_cases(rng, nargs=(1, 4), ncases=(1, 8), names=None, per_arg_types=None, exotic=False, unsortable=0.0):
    """Distinct cases over k arguments; per argument a homogeneous (sortable) value type.
    Values are drawn from a small pool per argument so that cases share coordinates."""
    k = rng.randint(*nargs)
    names = list(names)[:k] if names else rng.sample(ARG_POOL, k)
    pools = {}
    mixed_arg = rng.choice(names) if rng.random() < unsortable else None
    for a in names:
        vt = (per_arg_types or {}).get(a) or gen_vtype(rng, exotic=exotic)
        if a == mixed_arg:
            # one argument whose values mix numbers and strings (e.g. chi in {8, 16, 'exact'}): its union cannot be
            # sorted, so the order along that axis is not specified -- only that every result sits at its own label
            vals = gen_values(rng, rng.randint(2, 4), "int")
            pools[a] = [v if i % 2 == 0 else "s%d" % v for i, v in enumerate(vals)]
            continue
        if vt == "tuple":
            vt = "npint"          # (heterogeneous tuples are not sortable: no specified axis order)
        pools[a] = gen_values(rng, rng.randint(1, 2) if vt == "bool" else rng.randint(1, 4), vt)
    allc = list(itertools.product(*[pools[a] for a in names]))
    rng.shuffle(allc)
    n = min(len(allc), rng.randint(*ncases))
    cases = [dict(zip(names, c)) for c in allc[:n]]
    return names, cases


def spell_combos(combos, spelling):
    """Turn [[arg, values], ...] into one of the accepted spellings."""
    def keep(v, conv):
        # plain lists are copied (or turned into tuples); any other container (ndarray, range, dict view, generator...)
        # is handed over exactly as given
        return conv(v) if isinstance(v, (list, tuple)) else v
    if spelling == "dict":
        return {a: keep(v, list) for a, v in combos}
    if spelling == "tuple":
        return tuple((a, keep(v, tuple)) for a, v in combos)
    if spelling == "list":
        return [(a, keep(v, list)) for a, v in combos]
    if spelling == "single":
        assert len(combos) == 1
        return (combos[0][0], keep(combos[0][1], list))
    raise ValueError(spelling)


def spell_cases(names, cases, spelling):
    if spelling == "dict":
        return [dict(c) for c in cases], None
    if spelling == "tuple":
        return [tuple(c[a] for a in names) for c in cases], tuple(names)
    raise ValueError(spelling)
