"""pytest plugin (-p vf.pytest_contracts): run the repository's own tests with the icontract
monitors switched on -- one more workload for the C19 / C20 contracts.  What the contracts
recorded is written to $VF_CONTRACT_REPORT at the end of the session."""
import os
import json


def pytest_configure(config):
    from vf import contracts
    contracts.install_format_contract()
    contracts.install_stats_contracts()


def pytest_sessionfinish(session, exitstatus):
    from vf import contracts
    path = os.environ.get("VF_CONTRACT_REPORT")
    if path:
        with open(path, "w") as f:
            json.dump({"evals": contracts.EVALS, "records": contracts.RECORDS, "exitstatus": int(exitstatus)}, f)
