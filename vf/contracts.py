"""icontract contracts applied from the harness to the real xyzpy functions/classes.

Conditions *record* what they saw and return True, so the monitored code behaves exactly
as without the contract (the harness drains RECORDS after each case).  Every contract
counts its evaluations; zero evaluations means the monitor was bypassed (an alias bound
before decoration) and the run is inconclusive.
"""
import re
import math
import decimal
from fractions import Fraction

import icontract

EVALS = {}        # contract name -> number of evaluations
RECORDS = []      # violations recorded by conditions: dicts(contract=, msg=, witness=)


class ContractBroken(Exception):
    pass


def _bump(name):
    EVALS[name] = EVALS.get(name, 0) + 1


def drain():
    out = list(RECORDS)
    del RECORDS[:]
    return out


# --------------------------------------------------------------------------- #
# C20: format_number_with_error
# --------------------------------------------------------------------------- #

_PAT = re.compile(r"^(-?)(\d+)(?:\.(\d+))?\((\d+)\)(?:e([+-]\d+))?$")
_D = decimal.Decimal
_CTX = decimal.Context(prec=400)


def read_number_with_error(s):
    """Independent reader of '1.234(56)e+07': returns (value, error, unit, bracket digits)
    as exact Decimals, or None if the string is not of that form."""
    m = _PAT.match(s)
    if not m:
        return None
    sign, ip, fp, br, e = m.groups()
    fp = fp or ""
    exp = int(e or 0)
    unit = _CTX.scaleb(_D(1), exp - len(fp))
    val = _CTX.multiply(_D(sign + ip + fp), unit)
    err = _CTX.multiply(_D(br), unit)
    return val, err, unit, br


def judge_format(x, err, s):
    """None if `s` reads back as x +- err by the usual convention, else a description.
    (Judged in a private high-precision decimal context: the caller's ambient context must not bend the reader.)"""
    with decimal.localcontext(_CTX):
        return _judge_format(x, err, s)


def _judge_format(x, err, s):
    r = read_number_with_error(s)
    if r is None:
        return "not of the form digits(digits)[e+XX]: %r" % (s,)
    val, errv, unit, br = r
    if len(br) != 2 or br[0] == "0":
        return "%r: bracket %r is not two significant figures" % (s, br)
    dx, de = _D(x), _D(err)
    half = unit / 2
    slack_e = half * _D("1e-9") + abs(de) * _D("1e-15")
    slack_x = half * _D("1e-9") + abs(dx) * _D("1e-15")
    if abs(errv - de) > half + slack_e:
        return "%r reads as error %s but the error is %r (more than half a unit %s of the 2nd significant figure off)" % (
            s, errv.normalize(), err, unit.normalize())
    if abs(val - dx) > half + slack_x:
        return "%r reads as value %s but the value is %r (more than half a unit %s of the last shown digit off)" % (
            s, val, x, unit.normalize())
    if (x < 0) and val > 0 or (x > 0) and val < 0:
        return "%r has the wrong sign for %r" % (s, x)
    return None


def _fmt_post(x, err, result):
    _bump("format_number_with_error")
    try:
        fx, fe = float(x), float(err)
    except Exception:
        return True
    if not (math.isfinite(fx) and math.isfinite(fe) and fe > 0):
        return True          # outside the property's domain: nothing is promised
    _bump("format_number_with_error.in_domain")
    d = judge_format(fx, fe, result)
    if d:
        RECORDS.append({"contract": "format_number_with_error", "msg": d,
                        "witness": {"x": fx.hex(), "err": fe.hex(), "x_repr": repr(fx), "err_repr": repr(fe),
                                    "result": result}})
    return True


def install_format_contract():
    import xyzpy
    import xyzpy.utils as U
    if getattr(U.format_number_with_error, "__vf_contract__", False):
        return U.format_number_with_error
    wrapped = icontract.ensure(_fmt_post, error=ContractBroken)(U.format_number_with_error)
    wrapped.__vf_contract__ = True
    U.format_number_with_error = wrapped          # used by RunningStatistics.__repr__, estimate_from_repeats
    xyzpy.format_number_with_error = wrapped      # alias bound at import time
    return wrapped


# --------------------------------------------------------------------------- #
# C19: running statistics -- exact shadow accumulators
# --------------------------------------------------------------------------- #

EPS = 2.0 ** -52


class Shadow(object):
    """Exact (rational) sums of everything fed to one accumulator object."""
    __slots__ = ("n", "s1", "s2", "amax", "xs")

    def __init__(self):
        self.n = 0
        self.s1 = Fraction(0)
        self.s2 = Fraction(0)
        self.amax = 0.0
        self.xs = None

    def add(self, x):
        fx = Fraction(float(x))
        self.n += 1
        self.s1 += fx
        self.s2 += fx * fx
        self.amax = max(self.amax, abs(float(x)))

    @property
    def mean(self):
        return self.s1 / self.n

    @property
    def var(self):
        m = self.mean
        return self.s2 / self.n - m * m


class Shadow2(object):
    __slots__ = ("n", "sx", "sy", "sxy", "sxx", "syy", "ax", "ay")

    def __init__(self):
        self.n = 0
        self.sx = self.sy = self.sxy = self.sxx = self.syy = Fraction(0)
        self.ax = self.ay = 0.0

    def add(self, x, y):
        fx, fy = Fraction(float(x)), Fraction(float(y))
        self.n += 1
        self.sx += fx
        self.sy += fy
        self.sxy += fx * fy
        self.sxx += fx * fx
        self.syy += fy * fy
        self.ax = max(self.ax, abs(float(x)))
        self.ay = max(self.ay, abs(float(y)))

    @property
    def cov(self):
        return self.sxy / self.n - (self.sx / self.n) * (self.sy / self.n)

    @property
    def varx(self):
        return self.sxx / self.n - (self.sx / self.n) ** 2

    @property
    def vary(self):
        return self.syy / self.n - (self.sy / self.n) ** 2


def fsqrt(fr):
    """float sqrt of a non-negative Fraction, safe for huge/tiny values."""
    if fr <= 0:
        return 0.0
    return math.sqrt(fr) if fr.denominator.bit_length() < 1000 and fr.numerator.bit_length() < 1000 else \
        float(decimal.Decimal(fr.numerator) / decimal.Decimal(fr.denominator)) ** 0.5


# tolerance constants: calibrated on the unchanged tree (see DESIGN.md C19), x30 margin
K_MEAN = 16.0
K_VAR = 32.0


def rs_tolerances(sh):
    scale = sh.amax
    sigma = fsqrt(sh.var)
    n = sh.n
    g = 1.0 + math.sqrt(n)
    tol_mean = K_MEAN * g * EPS * scale + 5e-324
    tol_var = K_VAR * g * EPS * (scale * sigma + EPS * scale * scale) + 5e-324
    return tol_mean, tol_var, sigma, scale


def judge_running_statistics(rs, sh):
    """Compare a RunningStatistics object with its exact shadow. Returns list of messages."""
    bad = []
    if rs.count != sh.n:
        bad.append("count %r != %d values fed" % (rs.count, sh.n))
        return bad
    if sh.n == 0:
        return bad
    tol_mean, tol_var, sigma, scale = rs_tolerances(sh)
    mean = float(sh.mean)
    var = float(sh.var)
    if not abs(rs.mean - mean) <= tol_mean:
        bad.append("mean %r vs exact %r (tol %.3g, n=%d, scale=%.3g)" % (rs.mean, mean, tol_mean, sh.n, scale))
    if not abs(rs.var - var) <= tol_var:
        bad.append("var %r vs exact %r (tol %.3g, n=%d, scale=%.3g, sigma=%.3g)" % (rs.var, var, tol_var, sh.n, scale, sigma))
    # std / err are functions of var:  |sqrt(a) - sqrt(b)| <= min(|a-b| / sqrt(b), sqrt|a-b|)
    std = math.sqrt(var) if var > 0 else 0.0
    tol_std = min(tol_var / std if std > 0 else float("inf"), math.sqrt(tol_var)) + 4 * EPS * std
    if not abs(rs.std - std) <= tol_std:
        bad.append("std %r vs exact %r (tol %.3g)" % (rs.std, std, tol_std))
    err = std / math.sqrt(sh.n)
    tol_err = tol_std / math.sqrt(sh.n) + 4 * EPS * err
    if not abs(rs.err - err) <= tol_err:
        bad.append("err %r vs exact %r (tol %.3g)" % (rs.err, err, tol_err))
    if mean != 0 and abs(mean) > 64 * tol_mean:
        rel = err / abs(mean)
        # err / |mean|: the error of BOTH enters (first order: d(err)/|mean| + rel * d(mean)/|mean|; the guard above keeps
        # d(mean)/|mean| below 1/64, so the second-order remainder is covered by the factor 1.1)
        if not abs(rs.rel_err - rel) <= 1e-6 * rel + 1.01 * tol_err / abs(mean) + 1.1 * rel * tol_mean / abs(mean):
            bad.append("rel_err %r vs exact %r" % (rs.rel_err, rel))
    return bad


_SHADOWS = {}     # id(obj) -> (obj, shadow)  (objects kept alive while monitored)


def _rs_shadow(self):
    ent = _SHADOWS.get(id(self))
    if ent is None or ent[0] is not self:
        ent = (self, Shadow())
        _SHADOWS[id(self)] = ent
    return ent[1]


def _rs_update_post(self, x):
    """Postcondition of RunningStatistics.update: state equals the exact statistics of
    everything fed so far (the shadow is advanced here, atomically with the check)."""
    _bump("RunningStatistics.update")
    sh = _rs_shadow(self)
    sh.add(x)
    try:
        msgs = judge_running_statistics(self, sh)
    except Exception as e:      # reading the object's own attributes raised
        msgs = ["reading the statistics after %d updates raised %r" % (sh.n, e)]
    for msg in msgs:
        RECORDS.append({"contract": "RunningStatistics.update", "msg": msg, "witness": {"n": sh.n, "x": repr(x)}})
    return True


def _rc_shadow(self):
    ent = _SHADOWS.get(id(self))
    if ent is None or ent[0] is not self:
        ent = (self, Shadow2())
        _SHADOWS[id(self)] = ent
    return ent[1]


K_COV = 32.0


def judge_running_covariance(rc, sh):
    bad = []
    if rc.count != sh.n:
        return ["count %r != %d pairs fed" % (rc.count, sh.n)]
    if sh.n == 0:
        return bad
    g = 1.0 + math.sqrt(sh.n)
    sx, sy = fsqrt(sh.varx), fsqrt(sh.vary)
    tol = K_COV * g * EPS * (sh.ax * sy + sh.ay * sx + EPS * sh.ax * sh.ay) + 5e-324
    cov = float(sh.cov)
    if not abs(rc.covar - cov) <= tol:
        bad.append("covar %r vs exact %r (tol %.3g, n=%d)" % (rc.covar, cov, tol, sh.n))
    if sh.n > 1:
        sc = cov * sh.n / (sh.n - 1)
        if not abs(rc.sample_covar - sc) <= tol * sh.n / (sh.n - 1) * 1.01:
            bad.append("sample_covar %r vs exact %r" % (rc.sample_covar, sc))
    tm = K_MEAN * g * EPS
    if not abs(rc.xmean - float(sh.sx / sh.n)) <= tm * sh.ax + 5e-324:
        bad.append("xmean %r vs exact %r" % (rc.xmean, float(sh.sx / sh.n)))
    if not abs(rc.ymean - float(sh.sy / sh.n)) <= tm * sh.ay + 5e-324:
        bad.append("ymean %r vs exact %r" % (rc.ymean, float(sh.sy / sh.n)))
    return bad


def _rc_update_post(self, x, y):
    _bump("RunningCovariance.update")
    sh = _rc_shadow(self)
    sh.add(x, y)
    try:
        msgs = judge_running_covariance(self, sh)
    except Exception as e:
        msgs = ["reading the covariance after %d updates raised %r" % (sh.n, e)]
    for msg in msgs:
        RECORDS.append({"contract": "RunningCovariance.update", "msg": msg,
                        "witness": {"n": sh.n, "x": repr(x), "y": repr(y)}})
    return True


def install_stats_contracts():
    import xyzpy
    import xyzpy.utils as U
    if getattr(U.RunningStatistics.update, "__vf_contract__", False):
        return
    for cls, post in ((U.RunningStatistics, _rs_update_post), (U.RunningCovariance, _rc_update_post)):
        w = icontract.ensure(post, error=ContractBroken)(cls.update)
        w.__vf_contract__ = True
        cls.update = w
    assert xyzpy.RunningStatistics is U.RunningStatistics


def forget_shadows():
    _SHADOWS.clear()


def run_repo_tests_with_contracts(test_paths=("tests/test_utils.py",), timeout=900):
    """Run (part of) the repository's own suite with the contracts on; returns the report dict."""
    import os
    import sys
    import json
    import tempfile
    import subprocess
    repo = os.environ.get("VERIF_REPO", "/repo")
    rep = tempfile.mktemp(suffix=".json")
    env = dict(os.environ, VF_CONTRACT_REPORT=rep)
    r = subprocess.run([sys.executable, "-m", "pytest", "-q", "-p", "no:cacheprovider", "-p", "vf.pytest_contracts", "-W", "ignore"]
                       + list(test_paths), cwd=repo, env=env, stdout=subprocess.PIPE, stderr=subprocess.STDOUT, timeout=timeout)
    try:
        with open(rep) as f:
            out = json.load(f)
        os.remove(rep)
    except Exception:
        out = {"evals": {}, "records": [], "exitstatus": r.returncode, "error": r.stdout.decode(errors="replace")[-500:]}
    out["pytest_tail"] = r.stdout.decode(errors="replace").strip().splitlines()[-1:] if r.stdout else []
    return out
