"""C01 -- a grid sweep evaluates every combination exactly once, in its own slot.

Events: the probe's call log (one record per invocation, with pid) and the value
returned by xyzpy.combo_runner.  Oracle: (a) multiset of logged kwargs == grid x constants,
each exactly once; (b) result == reference nest in the *given* value order (flat: product
order; split: one nest per output); (c) therefore identical for every strategy.
"""
import itertools
import numpy as np
import multiprocessing
import concurrent.futures
import os

from .. import gens, probe, refmodel, executors
from ..common import quiet, exc_sig

PID = "C01"
LEVEL = "exploration"
TECHNIQUE = ("runtime monitoring: call-log exactly-once monitor + injective result encoding checked "
             "against a reference grid model, under real pools and adversarial completion orders")
RULE = ("seeded grids (1-5 args x 1-4 values, int/float/str, three spellings, 0-3 constants, scalar/"
        "tuple/array/list results) x strategy (sequential, shuffle True/int incl. the seeds 0 and 1, held-task submit/apply_async "
        "executors completing in every permutation, ThreadPool, ProcessPool, multiprocessing.Pool, loky "
        "parallel/num_workers) x split/flat; the largest grids of the quantifier (576-1024 settings) through every executor path, and grids beyond it (2025-2187 settings) sequentially, shuffled and through executors; sweeps following an equal-valued sweep of other types in the same process; value containers handed over as given (list, tuple, range, unsorted ndarray, dict key/value views, generator, map); grids given as non-dict mappings; a second identical sweep on the caller's thread pool; a case is distinct by (grid shape, value types, spelling, "
        "strategy, completion order observed in the call log, split, flat, kind) and non-trivial when "
        "the grid has >= 2 settings")
ASSUMPTIONS = [
    "probe result ids are 48-bit blake2b hashes of the sorted kwargs: a collision (p ~ 1e-11 per pair) could mask a misplacement",
    "completion orders of real pools are whatever the OS produced under per-call jitter; the held-task executors enumerate orders deterministically",
]
SHARDS = {"quick": 4, "thorough": 16}
MIN_REACH = {
    "sweeps_following_an_equal_valued_sweep": {"quick": 10, "thorough": 120},
    "grids_over_512_settings_through_executors": {"quick": 2, "thorough": 3},
    "grids_over_2000_settings": {"quick": 4, "thorough": 4},
    "second_sweeps_on_the_callers_pool": {"quick": 4, "thorough": 40},
    "grids_given_as_mappings_that_are_not_dicts": {"quick": 18, "thorough": 400},
    "calls_logged": {"quick": 3000, "thorough": 200000},
    "distinct_completion_orders": {"quick": 40, "thorough": 700},
    "real_pool_cases": {"quick": 8, "thorough": 100},
    "distinct_worker_pids": {"quick": 3, "thorough": 3},
    "sweeps_with_the_per_setting_progress_description": {"quick": 40, "thorough": 1500},
}
TIME_BUDGET = {"quick": 300, "thorough": 3000}

KINDS = ["int", "float", "str", "tuple:2", "tuple:3", "array:3", "array:2x2", "list:2", "bool", "mixed", "emptymember"]
SPLIT_KINDS = ["tuple:2", "tuple:3", "multi:s,a2,t", "mixed", "array:2", "array:3", "list:2", "array:2x2"]


def _gen_case(rng, strategy):
    combos = gens.gen_combos(rng, allow_mixed=True, exotic=True,
                             max_settings=64 if strategy["name"] in REAL else 400)
    spelling = rng.choice(["dict", "tuple", "list"] + (["single"] if len(combos) == 1 else []))
    split = rng.random() < 0.3
    flat = rng.random() < 0.3
    kind = rng.choice(SPLIT_KINDS if split else KINDS)
    return {
        "combos": combos,
        "spelling": spelling,
        "constants": gens.gen_constants(rng, exclude=[a for a, _ in combos]),
        "kind": kind,
        "split": split,
        "flat": flat,
        "strategy": strategy,
        "values_as": rng.choice(["list", "list", "tuple", "range?", "ndarray?", "ndarray?", "dictkeys", "generator", "map", "dictvalues"]),
        # the progress display (verbosity=2 describes every setting as it runs) must not touch what the function gets
        "verbose": rng.random() < 0.35,
    }


REAL = ("threadpool", "processpool", "mppool", "parallel_true", "parallel_int", "num_workers")


def cases(ctx):
    rng = ctx.rng("cases")
    n_inproc = ctx.pick(300, 15000)
    inproc = ["seq", "shuffle_true", "shuffle_int", "fake_submit", "fake_apply"]
    for i in range(n_inproc):
        name = inproc[i % len(inproc)]
        st = {"name": name}
        if name == "shuffle_int":
            st["seed"] = rng.choice([0, 1, rng.randint(2, 10 ** 6), rng.randint(2, 10 ** 6), rng.randint(2, 10 ** 6)])
        if name.startswith("fake"):
            st["perm_seed"] = rng.randint(0, 10 ** 9)
        yield _gen_case(rng, st)
    # duplicate combo values must be rejected before anything runs
    for i in range(ctx.pick(10, 100)):
        c = _gen_case(rng, {"name": "seq"})
        j = rng.randrange(len(c["combos"]))
        vals = c["combos"][j][1]
        vals.insert(rng.randrange(len(vals) + 1), rng.choice(vals))
        c["expect"] = "duplicate"
        if c.get("values_as") in ("dictkeys",):
            c["values_as"] = "generator"        # (dict keys cannot hold a duplicate)
        yield c
    # values that are equal but of different types (1 / 1.0 / True, 0 / 0.0 / False) index the SAME slot: the grid must
    # either be refused before anything runs, or (if accepted) still place every result correctly
    for i in range(ctx.pick(12, 120)):
        c = _gen_case(rng, {"name": rng.choice(["seq", "shuffle_int", "fake_submit"]), "seed": rng.randint(2, 99), "perm_seed": i})
        j = rng.randrange(len(c["combos"]))
        twin = rng.choice([[1, 1.0], [0, 0.0], [1, True], [2, 2.0], [0.0, False], [3.0, 3]])
        rng.shuffle(twin)
        vals = [v for v in c["combos"][j][1] if not isinstance(v, str) and v not in (0, 1, 2, 3)][:2]
        vals.insert(rng.randrange(len(vals) + 1), twin[0])
        vals.insert(rng.randrange(len(vals) + 1), twin[1])
        c["combos"][j][1] = vals
        c["values_as"] = "list"
        c["flat"] = False
        c["expect"] = "duplicate_or_correct"
        yield c
    # every completion permutation of a small grid, on both held-task executors
    nperm = ctx.pick(4, 6)
    shapes = {4: [[["b", [3, 1]], ["a", ["u", "v"]]]], 6: [[["b", [3, 1, 2]], ["a", ["u", "v"]]],
                                                           [["q", [0.5, -1.5]], ["a", [7, 5, 6]]]]}[nperm]
    for combos in shapes:
        for perm in itertools.permutations(range(nperm)):
            for name in ("fake_submit", "fake_apply"):
                yield {"combos": combos, "spelling": "dict", "constants": {"c0": 1}, "kind": "tuple:2",
                       "split": bool(perm[0] % 2), "flat": bool(perm[-1] % 2),
                       "strategy": {"name": name, "perm": list(perm)}, "values_as": "list"}
    # swept arguments whose NAMES are those of the library's own helper parameters, on every way of running
    for name in ("seq", "fake_submit", "fake_apply", "threadpool", "parallel_int"):
        for combos in ([["fn", [1, 2, 3]], ["executor", ["u", "v"]]], [["executor", [0.5, 1.5]], ["args", [4, 5]], ["kwds", ["k"]]]):
            yield {"combos": combos, "spelling": "dict", "constants": {}, "kind": "float", "split": False, "flat": False,
                   "strategy": {"name": name, "perm": list(range(6)), "workers": 2, "jitter_us": 0, "jitter_seed": 0, "perm_seed": 1, "seed": 3},
                   "values_as": "list", "helper_names": True}
    # every shuffle seed 0..K on a set of shapes
    nshapes, nseeds = ctx.pick((4, 12), (20, 50))
    for s in range(nshapes):
        base = _gen_case(rng, {"name": "shuffle_int"})
        for seed in range(0, nseeds + 1):
            c = dict(base)
            c["strategy"] = {"name": "shuffle_int", "seed": seed}
            yield c
    # the largest grids inside the quantifier (5 arguments x up to 4 values: 576, 768 and 1024 settings) on every way of
    # running tasks through an executor: the placement of more than a few hundred results is a history of its own
    big = [[4, 4, 4, 3, 3], [4, 4, 4, 4, 3], [4, 4, 4, 4, 4], [3, 4, 4, 4, 3]]
    strategies = ["fake_submit", "fake_apply", "threadpool", "seq", "shuffle_int"] + (["processpool", "num_workers"] if not ctx.quick else [])
    for i, name in enumerate(strategies):
        sizes = big[(i + ctx.seed) % len(big)]
        names_ = ["a", "b", "c", "d", "e"]
        combos = [[a, [j * (k + 1) for j in range(n)]] for k, (a, n) in enumerate(zip(names_, sizes))]
        st = {"name": name, "perm_seed": rng.randint(0, 10 ** 9), "seed": rng.randint(2, 999), "workers": 3, "jitter_us": 0, "jitter_seed": 0}
        yield {"combos": combos, "spelling": "dict", "constants": {}, "kind": "int", "split": False, "flat": bool(i % 2),
               "strategy": st, "values_as": "list", "big": True}
    # ... and grids well BEYOND it (2025, 2187 and 2026 settings - sizes that are no multiple of a round chunk): whatever
    # chunking, windowing or throttling a run strategy applies to long task lists must not lose or misplace a setting
    huge = [[45, 45], [3] * 7, [2, 1013]]
    for i, name in enumerate(["seq", "shuffle_int", "threadpool", "fake_submit", "seq", "shuffle_int"]):
        sizes = huge[(i + ctx.seed) % len(huge)]
        combos = [[a, [j * (k + 1) for j in range(n)]] for k, (a, n) in enumerate(zip(["a", "b", "c", "d", "e", "f", "g"], sizes))]
        st = {"name": name, "perm_seed": 17 + i, "seed": 5 + i, "workers": 3, "jitter_us": 0, "jitter_seed": 0}
        yield {"combos": combos, "spelling": "dict", "constants": {}, "kind": "int", "split": False, "flat": bool(i % 2),
               "strategy": st, "values_as": "list", "huge": True}
    # a sweep that FOLLOWS, in the same process, a sweep over equal-but-differently-typed values (1, 2 then 1.0, 2.0;
    # 0.0 then -0.0; True then 1; numpy scalars then Python ones): the function must receive the values of THIS sweep
    for i in range(ctx.pick(24, 300)):
        c = _gen_case(rng, {"name": rng.choice(["seq", "shuffle_int", "fake_submit", "threadpool"]), "seed": rng.randint(2, 99),
                            "perm_seed": i, "workers": 2})
        how = rng.choice(["int->float", "float->int", "int->npint", "zero-sign", "bool->int"])
        combos, pre = [], []
        for a, v in c["combos"]:
            n = len(v)
            ints = [3 * j + (i % 2) for j in range(n)]
            if how == "int->float":
                pre.append([a, ints]); combos.append([a, [float(x) for x in ints]])
            elif how == "float->int":
                pre.append([a, [float(x) for x in ints]]); combos.append([a, ints])
            elif how == "int->npint":
                pre.append([a, ints]); combos.append([a, ["np:%d" % x for x in ints]])
            elif how == "zero-sign":
                pre.append([a, [0.0] + [float(x) + 1 for x in ints[1:]]]); combos.append([a, [-0.0] + [float(x) + 1 for x in ints[1:]]])
            else:
                pre.append([a, [True, False][:max(1, min(n, 2))]]); combos.append([a, [1, 0][:max(1, min(n, 2))]])
        c["combos"], c["pre_combos"], c["values_as"], c["twin_how"] = combos, pre, "list", how
        yield c
    # real pools, with per-call jitter to diversify completion orders
    for i in range(ctx.pick(14, 160)):
        name = REAL[i % len(REAL)]
        st = {"name": name, "workers": rng.randint(2, 4), "jitter_us": rng.choice([0, 200, 2000]),
              "jitter_seed": rng.randint(0, 10 ** 6)}
        if rng.random() < 0.3:
            st["shuffle"] = rng.randint(1, 1000)
        yield _gen_case(rng, st)


def _values_as(vals, how):
    import numpy as np
    if how == "tuple":
        return tuple(vals)
    if how == "range?" and all(isinstance(v, int) and not isinstance(v, bool) for v in vals):
        # only usable when the values happen to be an arithmetic progression
        if len(vals) >= 2:
            step = vals[1] - vals[0]
            if step != 0 and list(range(vals[0], vals[0] + step * len(vals), step)) == list(vals):
                return range(vals[0], vals[0] + step * len(vals), step)
        return list(vals)
    if how == "ndarray?" and all(isinstance(v, (int, float)) and not isinstance(v, bool) for v in vals) \
            and len({type(v) for v in vals}) == 1:
        return np.array(vals)
    # ordered containers that are not sequences: the order given is the order of the axis
    if how == "dictkeys":
        return dict.fromkeys(vals).keys()
    if how == "dictvalues":
        return {i: v for i, v in enumerate(vals)}.values()
    if how == "generator":
        return (v for v in list(vals))
    if how == "map":
        return map(lambda v: v, list(vals))
    return list(vals)


def run_case(ctx, case):
    import xyzpy
    from xyzpy.utils import XYZError

    combos = [(a, [np.int64(int(x[3:])) if isinstance(x, str) and x.startswith("np:") else x for x in v]) for a, v in case["combos"]]
    if case.get("pre_combos"):
        # the earlier sweep of this process (its results are of no interest here)
        try:
            with quiet():
                xyzpy.combo_runner(probe.Probe("int", loglist=[]), {a: list(v) for a, v in case["pre_combos"]}, verbosity=0)
            ctx.count("sweeps_following_an_equal_valued_sweep")
        except Exception:
            pass
    if case.get("huge"):
        ctx.count("grids_over_2000_settings")
    if case.get("big") and case["strategy"]["name"] not in ("seq", "shuffle_int"):
        ctx.count("grids_over_512_settings_through_executors")
    constants = dict(case["constants"])
    kind = case["kind"]
    st = case["strategy"]
    name = st["name"]
    spelled = gens.spell_combos([(a, _values_as(v, case.get("values_as", "list"))) for a, v in combos],
                                case["spelling"])
    if isinstance(spelled, dict) and (len(combos) + len(str(combos[0][0])) + len(kind)) % 4 == 1:
        # the grid is a mapping that is not a dict (a read-only view of the caller's configuration, an OrderedDict)
        import collections
        import types
        spelled = types.MappingProxyType(spelled) if len(combos) % 2 else collections.OrderedDict(spelled)
        ctx.count("grids_given_as_mappings_that_are_not_dicts")

    tmp = None
    loglist = None
    if name in REAL:
        tmp = ctx.mkdtemp("log")
        logfile = os.path.join(tmp, "calls.log")
        ctl = os.path.join(tmp, "ctl.json")
        probe.write_ctl(ctl, jitter_us=st.get("jitter_us", 0), jitter_seed=st.get("jitter_seed", 0))
        fn = probe.Probe(kind, logfile=logfile, ctl=ctl)
    else:
        loglist = []
        fn = probe.Probe(kind, loglist=loglist)

    opts = {"split": case["split"], "flat": case["flat"], "verbosity": 0}
    if case.get("verbose"):
        opts["verbosity"] = 2
        ctx.count("sweeps_with_the_per_setting_progress_description")
    pool = None
    fake = None
    if name == "shuffle_true":
        opts["shuffle"] = True
    elif name == "shuffle_int":
        opts["shuffle"] = st["seed"]
    elif name == "fake_submit":
        fake = executors.PermutedSubmitExecutor(perm=st.get("perm"), perm_seed=st.get("perm_seed", 0))
        opts["executor"] = fake
    elif name == "fake_apply":
        fake = executors.PermutedApplyAsyncView(perm=st.get("perm"), perm_seed=st.get("perm_seed", 0))
        opts["executor"] = fake
    elif name == "threadpool":
        pool = concurrent.futures.ThreadPoolExecutor(st["workers"])
        opts["executor"] = pool
    elif name == "processpool":
        pool = concurrent.futures.ProcessPoolExecutor(st["workers"])
        opts["executor"] = pool
    elif name == "mppool":
        pool = multiprocessing.Pool(st["workers"])
        opts["executor"] = pool
    elif name == "parallel_true":
        opts["parallel"] = True
        opts["num_workers"] = None
    elif name == "parallel_int":
        opts["parallel"] = st["workers"]
    elif name == "num_workers":
        opts["num_workers"] = st["workers"]
    if st.get("shuffle"):
        opts["shuffle"] = st["shuffle"]

    result, err = None, None
    repeat_problem = None
    try:
        with quiet():
            result = xyzpy.combo_runner(fn, spelled, constants=constants or None, **opts)
            if name == "threadpool" and case.get("values_as", "list") == "list":
                # the caller's pool is used for a SECOND, identical sweep (with a silent twin of the function): it is
                # the caller's to keep, and the answer is the same
                try:
                    again = xyzpy.combo_runner(probe.Probe(kind), spelled, constants=constants or None, **opts)
                    d_again = refmodel.deep_eq(again, result)
                    if d_again:
                        repeat_problem = "a second identical sweep on the same pool gave another result: %s" % d_again
                except Exception as e2:
                    repeat_problem = "a second identical sweep on the caller's pool raised %r" % (e2,)
                ctx.count("second_sweeps_on_the_callers_pool")
    except Exception as e:  # judged below
        err = e
    finally:
        if pool is not None:
            if name == "mppool":
                pool.close()
                pool.join()
            else:
                pool.shutdown(wait=True)

    if repeat_problem:
        ctx.violation(case, repeat_problem, {"api": "combo_runner", "oracle": "same-answer-again", "strategy": name})
    if loglist is None:
        recs, _ = probe.read_log(logfile)
    else:
        recs = loglist
    logged = [r["k"] for r in recs]
    ctx.count("calls_logged", len(logged))
    for r in recs:
        ctx.seen("worker_pids", str(r["pid"]) if name in REAL and name != "threadpool" else "inproc")
    if name in REAL:
        ctx.count("real_pool_cases")
    if tmp:
        ctx.rmtree(tmp)

    sig0 = {"api": "combo_runner", "strategy": name, "split": case["split"], "flat": case["flat"],
            "kind": kind.split(":")[0]}

    # ---- expected rejection ----
    if case.get("expect") == "duplicate":
        ok = isinstance(err, XYZError) and not logged
        ctx.check(ok, case, "duplicate combo values not rejected before running: err=%r calls=%d" % (
            err, len(logged)), dict(sig0, oracle="duplicate-rejected"))
        ctx.observe(case, key=("dup", [len(v) for _, v in combos]), info={"raised": repr(err)[:80]})
        return

    if case.get("expect") == "duplicate_or_correct" and isinstance(err, XYZError) and not logged:
        ctx.count("cross_type_duplicates_refused")
        ctx.observe(case, key=("xdup", [len(v) for _, v in combos], name), info={"raised": repr(err)[:80]})
        return
    if err is not None:
        ctx.violation(case, "combo_runner raised %r" % (err,), dict(sig0, oracle="no-exception", **exc_sig(err)))
        ctx.observe(case, nontrivial=False)
        return

    # ---- (a) exactly once, nothing else ----
    points = list(refmodel.grid_points(combos))
    grid_keys = [probe.canon({**p, **constants}) for p in points]
    want = sorted(grid_keys)
    got = sorted(logged)
    if got != want:
        extra = [k for k in got if k not in set(want)]
        from collections import Counter
        cg = Counter(got)
        dup = [k for k, n in cg.items() if n > 1]
        missing = [k for k in want if k not in cg]
        ctx.violation(case, "call log != grid: %d calls for %d settings; missing=%s duplicated=%s extra=%s" % (
            len(got), len(want), missing[:3], dup[:3], extra[:3]), dict(sig0, oracle="exactly-once"))

    # ---- (b) placement ----
    def leaf(p):
        return probe.make(kind, {**p, **constants})

    def expected_nest(sel=None):
        f = leaf if sel is None else (lambda p: leaf(p)[sel])
        if case["flat"]:
            return tuple(f(p) for p in points)
        return refmodel.grid_nest(combos, f)

    if case["split"]:
        nout = len(leaf(points[0]))
        expected = tuple(expected_nest(j) for j in range(nout))
    else:
        expected = expected_nest()
    diff = refmodel.deep_eq(result, expected)
    if diff:
        ctx.violation(case, "result differs from the reference grid at %s" % diff, dict(sig0, oracle="placement"))

    # ---- what was observed ----
    cg_keys = set(grid_keys)
    order = tuple(grid_keys.index(k) if k in cg_keys else -1 for k in logged) if len(want) <= 64 else None
    if order is not None and len(points) > 1:
        ctx.seen("completion_orders", (len(points),) + order)
    if fake is not None:
        ctx.count("held_task_flushes", fake.flushes)
    key = ([len(v) for _, v in combos], [type(v[0]).__name__ for _, v in combos], case["spelling"], name,
           st.get("perm") or st.get("seed") or st.get("perm_seed") or st.get("shuffle"),
           case["split"], case["flat"], kind, sorted(constants))
    ctx.observe(case, key=key, nontrivial=len(points) >= 2,
                info={"calls": len(logged), "settings": len(points),
                      "call_order_vs_grid_order": list(order)[:24] if order else None})
