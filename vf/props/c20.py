"""C20 -- a number formatted with its error reads back as that number and that error.

Monitor: an icontract postcondition on xyzpy.utils.format_number_with_error (so every
call site is covered: direct, RunningStatistics.__repr__, estimate_from_repeats
verbosity>=2).  Oracle: an independent reader of 'd.ddd(ee)e+XX' using exact Decimals.
"""
import math

from .. import contracts
from ..common import quiet, exc_sig

PID = "C20"
LEVEL = "exploration"
TECHNIQUE = ("runtime monitoring: icontract postcondition on the real function at all its call sites, "
             "judged by an independent exact-decimal reader of the produced string")
RULE = ("finite x of both signs with |x| log-uniform in [1e-300,1e300] and x=0, err/|x| log-uniform in "
        "[1e-12,1e12]; dense strata at every rounding boundary: err mantissa in [9.94,10.0) at all scales, x at "
        "+-10^k(1+-d) and k in -3..3 (the hide-exponent region), err/|x| at 0.1(1+-d) and 1(1+-d), x mantissa "
        "9.99..; a sixth of the batches under a changed ambient decimal context, a sixth with numpy scalar arguments, a sixth as 0-d arrays formatted twice (same text, arrays untouched); inputs are distinct by their float bits; non-trivial = in the property's domain (finite, err>0)")
ASSUMPTIONS = [
    "reading convention: bracketed digits are the uncertainty in the last shown digits, times the shown power of ten",
    "tolerance: half a unit of the last shown digit plus 1e-9 of that unit and 1e-15 relative (inexact power-of-ten scaling)",
    "two significant figures of error = a two-digit bracket not starting with 0",
]
SHARDS = {"quick": 2, "thorough": 16}
MIN_REACH = {
    "batches_under_a_changed_decimal_context": {"quick": 2, "thorough": 200},
    "batches_with_numpy_scalar_arguments": {"quick": 2, "thorough": 200},
    "pairs_formatted_twice_as_zero_dimensional_arrays": {"quick": 1500, "thorough": 100000},
    "contract_evals_in_domain": {"quick": 15000, "thorough": 1500000},
    "via_repr_or_estimate": {"quick": 50, "thorough": 500},
    "repr_strings_read_back": {"quick": 30, "thorough": 300},
}
TIME_BUDGET = {"quick": 200, "thorough": 3000}
BATCH = 1000

STRATA = ["loguniform", "loguniform", "err_rounds_up", "x_pow10", "hide_region", "ratio_tenth", "ratio_one",
          "x_zero", "x_nines", "small_ints", "extreme", "branch_edges", "branch_edges"]


WITNESSES = [(99.9, 9.96), (-99.97, 9.99), (99.99, 9.9989),          # fixed 67959fd: must stay fixed
             (-6.490504883812716e+299, 1.2841314073698652e+308),   # KF-C20-overflow-scale-exponent
             (0.1542412, 0.0626653), (-128124123097.0, 6424.0)]    # the docstring examples


def cases(ctx):
    yield {"gen": "repo_tests"}
    yield {"gen": "explicit", "pairs": [[float(x).hex(), float(e).hex()] for x, e in WITNESSES]}
    n = ctx.pick(24, 2200)
    for b in range(n):
        yield {"gen": STRATA[b % len(STRATA)], "batch": b, "n": BATCH}
    for b in range(ctx.pick(4, 40)):
        yield {"gen": "call_sites", "batch": b, "n": 20}


def _pairs(rng, gen, n):
    out = []
    deltas = [0.0, 1e-16, 2.3e-16, 1e-15, 1e-12, 1e-9, 1e-6, 1e-3, 5e-3]
    for _ in range(n):
        sgn = rng.choice([1.0, -1.0])
        if gen == "loguniform":
            x = sgn * 10 ** rng.uniform(-300, 300)
            err = abs(x) * 10 ** rng.uniform(-12, 12)
        elif gen == "err_rounds_up":
            k = rng.randint(-30, 30) if rng.random() < 0.8 else rng.randint(-290, 290)
            m = rng.choice([9.94, 9.949, 9.95, 9.9500001, 9.951, 9.96, 9.99, 9.999999, 9.94999999])
            m = m if rng.random() < 0.7 else rng.uniform(9.94, 10.0)
            err = m * 10.0 ** k
            x = sgn * err * 10 ** rng.uniform(-3, 6)
        elif gen == "x_pow10":
            k = rng.randint(-25, 25) if rng.random() < 0.8 else rng.randint(-299, 299)
            d = rng.choice(deltas) * rng.choice([1, -1])
            x = sgn * (10.0 ** k) * (1 + d)
            err = abs(x) * 10 ** rng.uniform(-12, 3)
        elif gen == "hide_region":
            k = rng.randint(-3, 3)
            x = sgn * rng.uniform(1, 10) * 10.0 ** k
            err = rng.choice([rng.uniform(0.9, 10.1), 9.96, 9.95, 0.996, 1.0, 9.5]) * 10.0 ** rng.randint(k - 4, k + 2)
        elif gen == "ratio_tenth":
            x = sgn * 10 ** rng.uniform(-20, 20)
            err = abs(x) * 0.1 * (1 + rng.choice(deltas) * rng.choice([1, -1]))
        elif gen == "ratio_one":
            x = sgn * 10 ** rng.uniform(-20, 20)
            err = abs(x) * (1 + rng.choice(deltas) * rng.choice([1, -1]))
        elif gen == "x_zero":
            x = 0.0 * sgn
            err = 10 ** rng.uniform(-300, 300)
        elif gen == "x_nines":
            k = rng.randint(-12, 12)
            x = sgn * rng.choice([9.9, 9.99, 9.995, 9.9995, 9.99999999, 99.9, 99.95, 0.0995]) * 10.0 ** k
            err = abs(x) * 10 ** rng.uniform(-6, 1)
        elif gen == "small_ints":
            x = sgn * rng.randint(0, 2000)
            err = rng.choice([rng.randint(1, 300), rng.random() * 10, rng.random()])
            if err <= 0:
                err = 0.5
        elif gen == "branch_edges":
            # both sides of every branch condition: exponent hidden iff scale exponent in {-1,0} or
            # (== +1 and err < |x|/10); error mantissa rounding up to the next decade
            k = rng.randint(-2, 3)
            xm = rng.choice([1.0, 1.0000001, 9.95, 9.99, 9.9999, 9.951, rng.uniform(1, 10), rng.uniform(9.94, 10)])
            x = sgn * xm * 10.0 ** k
            if rng.random() < 0.5:
                err = abs(x) / 10 * (1 + rng.choice(deltas) * rng.choice([1, -1]))
            else:
                em = rng.choice([9.95, 9.96, 9.949, 9.99, 9.9999, rng.uniform(9.94, 10), rng.uniform(1, 10)])
                err = em * 10.0 ** rng.randint(k - 3, k + 1)
        elif gen == "extreme":
            x = sgn * 10 ** rng.choice([rng.uniform(-300, -290), rng.uniform(290, 300)])
            err = abs(x) * 10 ** rng.uniform(-12, 12)
        else:
            raise ValueError(gen)
        if math.isfinite(x) and math.isfinite(err) and err > 0:
            out.append((float(x), float(err)))
    return out


def setup(ctx):
    contracts.install_format_contract()


def run_case(ctx, case):
    import xyzpy
    import xyzpy.utils as U
    fmt = U.format_number_with_error
    assert getattr(fmt, "__vf_contract__", False)
    before = contracts.EVALS.get("format_number_with_error.in_domain", 0)

    if case["gen"] == "repo_tests":
        rep = contracts.run_repo_tests_with_contracts(("tests/test_utils.py",))
        ctx.count("repo_test_contract_evals", rep["evals"].get("format_number_with_error", 0))
        for rec in rep["records"]:
            if rec["contract"] == "format_number_with_error":
                ctx.violation({"gen": "explicit", "pairs": [[rec["witness"]["x"], rec["witness"]["err"]]]}, "repository tests with the contract on: " + rec["msg"],
                              {"api": "format_number_with_error", "oracle": "reads-back", "site": "repo-tests"})
        ctx.observe(case, key="repo_tests", nontrivial=True, info={"evals": rep["evals"], "pytest": rep.get("pytest_tail")})
        return
    if case["gen"] == "explicit":
        pairs = [(float.fromhex(a), float.fromhex(b)) for a, b in case["pairs"]]
    elif case["gen"] == "call_sites":
        pairs = []
    else:
        pairs = _pairs(ctx.rng("batch", case["batch"], case["gen"]), case["gen"], case["n"])

    nviol = 0
    # the calling program's ambient decimal context (a thread-wide setting a user may have changed for their own sums) and
    # the numeric type of the arguments (Python / numpy scalars) must not change what is printed
    import decimal
    import numpy as np
    amb = None
    if case.get("batch") is not None and case["batch"] % 6 == 4:
        amb = decimal.Context(prec=6) if case["batch"] % 12 == 4 else decimal.Context(prec=28, rounding=decimal.ROUND_DOWN)
        ctx.count("batches_under_a_changed_decimal_context")
    as_numpy = case.get("batch") is not None and case["batch"] % 6 == 5
    if as_numpy:
        ctx.count("batches_with_numpy_scalar_arguments")
    as_0d = case.get("batch") is not None and case["batch"] % 6 == 3
    if as_0d:
        ctx.count("batches_with_zero_dimensional_array_arguments")
    for x, err in pairs:
        try:
            xa = int(x) if case["gen"] == "small_ints" and x.is_integer() else x
            ea = err
            if as_0d:
                # value and error as 0-d arrays (what DataArray.values / np.asarray(scalar) give), the same objects
                # formatted twice (a table printed again): same text, and the caller's arrays are left as they were
                xa, ea = np.array(float(x)), np.array(float(err))
                r1_ = fmt(xa, ea)
                r2_ = fmt(xa, ea)
                if float(xa) != float(x) or float(ea) != float(err):
                    ctx.violation({"gen": "explicit", "pairs": [[x.hex(), err.hex()]], "x": repr(x), "err": repr(err)},
                                  "formatting changed the caller's 0-d arrays: (%r, %r) became (%r, %r)" % (x, err, float(xa), float(ea)),
                                  {"api": "format_number_with_error", "oracle": "arguments-untouched", "stratum": _stratum(x, err)})
                    nviol += 1
                elif r1_ != r2_:
                    ctx.violation({"gen": "explicit", "pairs": [[x.hex(), err.hex()]], "x": repr(x), "err": repr(err)},
                                  "the same arrays formatted twice read %r, then %r" % (r1_, r2_),
                                  {"api": "format_number_with_error", "oracle": "repeatable", "stratum": _stratum(x, err)})
                    nviol += 1
                ctx.count("pairs_formatted_twice_as_zero_dimensional_arrays")
                continue
            if as_numpy:
                xa = np.int64(xa) if isinstance(xa, int) and abs(xa) < 2 ** 62 else np.float64(xa)
                ea = np.float64(err)
            if amb is not None:
                with decimal.localcontext(amb):
                    fmt(xa, ea)
            else:
                fmt(xa, ea)
        except Exception as e:
            w = {"gen": "explicit", "pairs": [[x.hex(), err.hex()]], "x": repr(x), "err": repr(err)}
            ctx.violation(w, "format_number_with_error(%r, %r) raised %r" % (x, err, e),
                          dict(exc_sig(e), api="format_number_with_error", stratum=_stratum(x, err)))
            nviol += 1
        for rec in contracts.drain():
            w = {"gen": "explicit", "pairs": [[rec["witness"]["x"], rec["witness"]["err"]]],
                 "x": rec["witness"]["x_repr"], "err": rec["witness"]["err_repr"], "result": rec["witness"]["result"]}
            ctx.violation(w, rec["msg"], {"api": "format_number_with_error", "oracle": "reads-back",
                                          "stratum": _stratum(x, err)})
            nviol += 1
        ctx.seen("inputs", "%s/%s" % (x.hex(), err.hex()))

    if case["gen"] == "call_sites":
        # the same contract is reached through the other call sites
        rng = ctx.rng("sites", case["batch"])
        for _ in range(case["n"]):
            rs = U.RunningStatistics()
            mu = rng.choice([1.0, -1.0]) * 10 ** rng.uniform(-8, 8)
            rs.update_from_it([mu * (1 + 10 ** rng.uniform(-9, 0) * rng.gauss(0, 1)) for _ in range(rng.randint(2, 30))])
            if rs.err > 0:
                text = repr(rs)
                ctx.count("via_repr_or_estimate")
                # what repr shows for the mean IS that string: read it back against the mean and its error
                import re as _re
                m_ = _re.match(r"RunningStatistics\(mean=(.*), count=(\d+)\)$", text)
                d_ = "not of the form RunningStatistics(mean=<value(error)>, count=<n>)" if not m_ else \
                    contracts.judge_format(float(rs.mean), float(rs.err), m_.group(1))
                ctx.count("repr_strings_read_back")
                if d_:
                    ctx.violation({"gen": "explicit", "pairs": [[float(rs.mean).hex(), float(rs.err).hex()]], "x": repr(float(rs.mean)),
                                   "err": repr(float(rs.err)), "result": text},
                                  "repr(RunningStatistics) = %r does not read back as mean %r and error %r: %s" % (text, float(rs.mean), float(rs.err), d_),
                                  {"api": "format_number_with_error", "oracle": "reads-back", "site": "repr"})
        with quiet():
            r = ctx.rng("est", case["batch"])
            xyzpy.estimate_from_repeats(lambda: 3.0 + r.gauss(0, 0.5), rtol=0.05, verbosity=2, max_samples=60)
        ctx.count("via_repr_or_estimate")
        for rec in contracts.drain():
            w = {"gen": "explicit", "pairs": [[rec["witness"]["x"], rec["witness"]["err"]]],
                 "x": rec["witness"]["x_repr"], "err": rec["witness"]["err_repr"], "result": rec["witness"]["result"]}
            ctx.violation(w, rec["msg"], {"api": "format_number_with_error", "oracle": "reads-back", "site": "repr/estimate"})

    after = contracts.EVALS.get("format_number_with_error.in_domain", 0)
    ctx.count("contract_evals_in_domain", after - before)
    ctx.count("max_batch", 0)
    sample = [(repr(x), repr(e), fmt(x, e)) for x, e in pairs[:3]] if nviol == 0 else None
    for rec in contracts.drain():           # (the three example strings are judged like every other call)
        if rec["contract"] == "format_number_with_error":
            ctx.violation({"gen": case["gen"], "x_err": rec.get("args")}, rec["msg"], {"api": "format_number_with_error", "oracle": "reads-back", "stratum": "examples"})
    ctx.observe({"gen": case["gen"], "batch": case.get("batch"), "n": len(pairs)},
                key=(case["gen"], case.get("batch")), nontrivial=True,
                info={"inputs": len(pairs), "examples_x_err_string": sample})
    # distinct_nontrivial is counted per input, not per batch
    for x, err in pairs:
        ctx.distinct.add("%s/%s" % (x.hex(), err.hex()))
    ctx.evaluations += max(0, len(pairs) - 1)


def _stratum(x, err):
    """Coarse mechanism class of an input, used to key known findings by mechanism."""
    try:
        ex = int(("%e" % x).split("e")[1])
        ee = int(("%e" % err).split("e")[1])
    except Exception:
        return "?"
    xe = max(ex, ee + 1)
    parts = []
    if xe >= 308:
        parts.append("scale-exponent>=308")
    if err < 2.3e-308 or (x != 0 and abs(x) < 2.3e-308):
        parts.append("subnormal")
    if xe < -307:
        parts.append("scale-exponent<-307")
    return ",".join(parts) or "normal-range"
