"""C12 -- a crop is deleted only after its data is safely delivered.

Events: byte-exact snapshot of <parent>/.xyz-<name>/ before and after every reap attempt;
the exception or value of the attempt; the order of Harvester.add_ds / Sampler.add_df /
Crop.delete_all calls (recording wrappers); the harvester / sampler data file; the value
of the retried reap.
Oracle: the directory disappears iff the reap succeeded and clean-up applies as documented
(None => not allow_incomplete), for farmers only after the sync returned; every raising
reap leaves the tree byte-identical; after correcting the cause the same reap delivers the
exact results.
"""
import os
import warnings
import itertools

import numpy as np

from .. import probe, refmodel, cropkit
from ..common import quiet, exc_sig

PID = "C12"
LEVEL = "fault_enumeration"
TECHNIQUE = ("runtime monitoring with injected faults: the full option matrix of reap x farmer kind x failure stage is "
             "executed on real crops, with byte-exact directory snapshots, call-order recording wrappers and a corrected retry")
RULE = ("clean_up in {None,True,False} x allow_incomplete x wait x farmer kind {raw, raw->to_ds, Runner, Harvester, Sampler} x "
        "injected failure {none, incomplete crop, truncated result, unreadable result, wrong output description, merge "
        "conflict with existing data, failing save (failpoint raising once in save_ds/save_df)} on crops of several "
        "shapes; plus reaps under warnings turned into errors (a raising reap leaves the crop untouched, the same reap under ordinary filters is exact), un-synced farmer reaps, over-long last result files with falsy surplus, and a long-lived Crop object reaping after another object re-sowed an extended sweep and grew it; chunked (dask-backed) harvesters; attempts under xarray's announced combine defaults; farmer files named by a pathlib.Path; another session's write that keeps the file's time stamp; each (options, kind, failure, shape) is one execution incl. its retry; non-trivial always")
ASSUMPTIONS = [
    "wait=True is combined only with complete crops (an incomplete crop would block by design; waiting is C11's subject)",
    "the save failpoint replaces xyzpy.gen.farming.save_ds / save_df by a wrapper that raises OSError once (applied from the harness)",
]
EXHAUSTIVE = {"quick": True, "thorough": True}
EXHAUSTIVE_NOTE = "the option x kind x applicable-failure matrix is enumerated completely, once per shape (3 shapes quick, 10 thorough)"
SHARDS = {"quick": 8, "thorough": 16}
MIN_REACH = {
    "attempts": {"quick": 450, "thorough": 2200},
    "failed_attempts_tree_compared": {"quick": 300, "thorough": 1200},
    "retries_exact": {"quick": 300, "thorough": 1200},
    "sync_before_delete_observed": {"quick": 12, "thorough": 120},
    "reaps_by_an_object_older_than_the_last_sow": {"quick": 30, "thorough": 100},
    "unsynced_farmer_reaps": {"quick": 15, "thorough": 50},
    "harvesters_with_memory_before_the_other_session_wrote": {"quick": 20, "thorough": 80},
    "reaps_of_crops_with_surplus_falsy_results": {"quick": 40, "thorough": 150},
    "reaps_with_warnings_turned_into_errors": {"quick": 100, "thorough": 300},
    "harvester_reaps_naming_a_merge_policy": {"quick": 30, "thorough": 100},
    "sampler_crops_whose_table_does_not_exist_yet": {"quick": 30, "thorough": 100},
    "harvester_crops_whose_results_are_all_nan": {"quick": 8, "thorough": 30},
    "harvester_crops_whose_harvester_is_chunked": {"quick": 25, "thorough": 80},
    "attempts_under_xarrays_new_combine_defaults": {"quick": 100, "thorough": 350},
    "farmers_whose_file_is_named_by_a_path_object": {"quick": 30, "thorough": 100},
    "other_sessions_writes_that_kept_the_files_time_stamp": {"quick": 15, "thorough": 50},
}
TIME_BUDGET = {"quick": 400, "thorough": 3400}

KINDS = ["raw", "to_ds", "runner", "harvester", "sampler"]
FAILS = {
    "raw": ["none", "incomplete", "truncated", "unreadable", "overlong"],
    "to_ds": ["none", "incomplete", "truncated", "wrong_descr"],
    "runner": ["none", "incomplete", "unreadable", "wrong_descr", "overlong"],
    "harvester": ["none", "incomplete", "truncated", "wrong_descr", "conflict", "save_fails"],
    "sampler": ["none", "incomplete", "unreadable", "save_fails", "overlong"],
}
SHAPES = [(6, 2), (5, 2), (4, 1), (7, 3), (3, 1), (8, 3), (9, 4), (6, 6), (2, 1), (10, 3)]


def cases(ctx):
    nshapes = ctx.pick(3, 10)
    idx = 0
    for s in range(nshapes):
        for kind in KINDS:
            for fail in FAILS[kind]:
                for clean_up, allow, wait in itertools.product([None, True, False], [False, True], [False, True]):
                    if wait and fail == "incomplete":
                        continue
                    yield {"kind": kind, "fail": fail, "clean_up": clean_up, "allow_incomplete": allow, "wait": wait,
                           "shape": SHAPES[s], "shuffle": [False, True, 3][idx % 3], "idx": idx}
                    idx += 1
                    if fail in ("none", "incomplete") and idx % 2 == 0:
                        yield {"kind": kind, "fail": fail, "clean_up": clean_up, "allow_incomplete": allow, "wait": wait,
                               "shape": SHAPES[s], "shuffle": [False, True, 3][idx % 3], "idx": idx, "strict_warnings": True}
                        idx += 1
                    if kind in ("harvester", "sampler") and fail == "none" and not wait:
                        # the same with sync=False (results returned, nothing merged): the clean-up rules do not change
                        yield {"kind": kind, "fail": fail, "clean_up": clean_up, "allow_incomplete": allow, "wait": wait,
                               "shape": SHAPES[s], "shuffle": [False, True, 3][idx % 3], "idx": idx, "nosync": True}
                        idx += 1
    # a long-lived Crop object (a notebook that monitors and reaps) whose crop is re-sown with an extended sweep and grown
    # by ANOTHER Crop object before it reaps: it must deliver everything that is now in the crop, or refuse and keep it
    for s in range(nshapes):
        for kind in ("raw", "runner", "harvester"):
            for looked in ("ctor", "num_results", "str", "is_ready"):
                for clean_up in (None, True):
                    yield {"stale": True, "kind": kind, "looked": looked, "clean_up": clean_up, "shape": SHAPES[s], "idx": idx,
                           "extend_by": 1 + idx % 3}
                    idx += 1


def run_stale(ctx, case):
    import xyzpy
    kind = case["kind"]
    n, bs = case["shape"]
    n1 = n + case["extend_by"] * bs
    tmp = ctx.mkdtemp("c12")
    name = "c12"
    loc = cropkit.crop_dir(tmp, name)
    sig = {"api": "reap", "farmer": kind, "scenario": "crop re-sown and grown by another object", "clean_up": str(case["clean_up"])}
    pkind = "multi:s,s" if kind == "harvester" else "float"
    var_names = ["y", "z"] if pkind.startswith("multi") else "y"
    fn = probe.Probe(pkind, name="dprobe")
    data_file = None
    try:
        with quiet():
            def mk(**kw):
                if kind == "raw":
                    return xyzpy.Crop(fn=fn, name=name, parent_dir=tmp, **kw)
                return xyzpy.Crop(farmer=farmer, name=name, parent_dir=tmp, **kw)
            farmer = None
            if kind != "raw":
                runner = xyzpy.Runner(fn, var_names)
                farmer = runner
                if kind == "harvester":
                    data_file = os.path.join(tmp, "hdata.h5")
                    farmer = xyzpy.Harvester(runner, data_name=data_file)
            sower = mk(batchsize=bs)
            sower.sow_combos({"a": list(range(1, n + 1))}, verbosity=0)
            sower.grow_missing()
            monitor = mk() if kind != "raw" else xyzpy.Crop(name=name, parent_dir=tmp)
            if case["looked"] == "num_results":
                monitor.num_results
            elif case["looked"] == "str":
                str(monitor)
            elif case["looked"] == "is_ready":
                monitor.is_ready_to_reap()
            # the sow script is run again with the extended sweep (a fresh object that does not take over the old settings)
            sower2 = mk(batchsize=bs, autoload=False)
            sower2.sow_combos({"a": list(range(1, n1 + 1))}, verbosity=0)
            sower2.grow_missing()
    except Exception as e:
        ctx.violation(case, "building the scenario raised %r" % (e,), dict(sig, step="setup", **exc_sig(e)))
        ctx.rmtree(tmp)
        return
    before = cropkit.tree_snapshot(loc)
    err, res = None, None
    try:
        with quiet():
            res = monitor.reap(clean_up=case["clean_up"])
    except Exception as e:
        err = e
    ctx.count("attempts")
    ctx.count("reaps_by_an_object_older_than_the_last_sow")
    after = cropkit.tree_snapshot(loc)
    bad = []
    if err is not None:
        if after != before:
            bad.append("reap raised %s but the crop directory was %s" % (type(err).__name__, "deleted" if after is None else "changed"))
    else:
        avals = list(range(1, n1 + 1))
        d = None
        try:
            if kind == "raw":
                w = {"mode": "grid", "combos": [["a", avals]], "names": None, "cases": None, "constants": {}, "kind": pkind}
                d, _ = cropkit.compare_nest(res, w, {}, pkind)
            else:
                if sorted(res["a"].values.tolist()) != avals:
                    d = "delivered coordinate a = %s, the crop holds results for %s" % (res["a"].values.tolist(), avals)
                for a in ([] if d else avals):
                    v = probe.make(pkind, {"a": a})
                    exp = {"y": v[0], "z": v[1]} if pkind.startswith("multi") else {"y": v}
                    for vn, ev in exp.items():
                        if refmodel.deep_eq(res.sel(a=a)[vn].values.item(), ev):
                            d = "ds.sel(a=%d)[%s] is not the function's value" % (a, vn)
        except Exception as e:
            d = "delivered result cannot be read as the %d results in the crop: %r" % (n1, e)
        if d and after is None:
            bad.append("the crop (results for a=1..%d) was deleted although the reap did not deliver all of it: %s" % (n1, d))
        elif d:
            bad.append("reap returned without error but not the crop's results: %s" % d)
        if not d and kind == "harvester":
            if farmer._full_ds is not None:
                farmer._full_ds.close()
            disk = xyzpy.load_ds(data_file)
            if sorted(disk["a"].values.tolist()) != avals:
                bad.append("the harvester's file holds a=%s after reaping a crop with results for a=1..%d" % (disk["a"].values.tolist(), n1))
            disk.close()
    for msg in bad[:1]:
        ctx.violation(case, msg, dict(sig, oracle=" ".join(msg.split(" ")[:4])))
    ctx.rmtree(tmp)
    ctx.observe(case, key=("stale", kind, case["looked"], case["clean_up"], case["shape"], case["extend_by"]), nontrivial=True,
                info={"raised": repr(err)[:80] if err else None, "deleted": after is None})


class Order(object):
    """Recording wrappers: order of sync and deletion inside one reap attempt."""

    def __init__(self):
        self.events = []

    def install(self):
        from xyzpy.gen import cropping, farming
        ev = self.events

        def wrap(cls, name, tag):
            orig = getattr(cls, name)
            orig = getattr(orig, "__vf_orig__", orig)

            def w(self_, *a, **k):
                ev.append(tag + ":enter")
                try:
                    r = orig(self_, *a, **k)
                except BaseException:
                    ev.append(tag + ":raised")
                    raise
                ev.append(tag + ":exit")
                return r
            w.__vf_orig__ = orig
            setattr(cls, name, w)
        wrap(cropping.Crop, "delete_all", "delete_all")
        wrap(farming.Harvester, "add_ds", "add_ds")
        wrap(farming.Sampler, "add_df", "add_df")


class SaveFailpoint(object):
    """Make farming.save_ds / save_df raise OSError the next `n` times they are called."""

    def __init__(self):
        self.remaining = 0
        self.fired = 0

    def install(self):
        from xyzpy.gen import farming
        fp = self
        for name in ("save_ds", "save_df"):
            orig = getattr(farming, name)
            orig = getattr(orig, "__vf_orig__", orig)

            def make(orig):
                def w(*a, **k):
                    if fp.remaining > 0:
                        fp.remaining -= 1
                        fp.fired += 1
                        raise OSError(28, "injected: no space left on device")
                    return orig(*a, **k)
                w.__vf_orig__ = orig
                return w
            setattr(farming, name, make(orig))


def run_case(ctx, case):
    """A fifth of the attempts run in a session whose caller opted into xarray's announced new defaults for combining
    datasets (xr.set_options(use_new_combine_kwarg_defaults=True)): what a reap keeps or deletes does not depend on it."""
    import xarray as xr
    if case.get("idx", 0) % 5 == 3 and "use_new_combine_kwarg_defaults" in xr.core.options.OPTIONS:
        ctx.count("attempts_under_xarrays_new_combine_defaults")
        with xr.set_options(use_new_combine_kwarg_defaults=True):
            return _run_case(ctx, case)
    return _run_case(ctx, case)


def _run_case(ctx, case):
    import xyzpy
    if case.get("stale"):
        return run_stale(ctx, case)
    kind, fail = case["kind"], case["fail"]
    n, bs = case["shape"]
    tmp = ctx.mkdtemp("c12")
    name = "c12"
    loc = cropkit.crop_dir(tmp, name)
    opts = {"clean_up": case["clean_up"], "allow_incomplete": case["allow_incomplete"], "wait": case["wait"]}
    if case.get("nosync"):
        opts["sync"] = False
        ctx.count("unsynced_farmer_reaps")
    elif kind == "harvester" and fail != "conflict" and case["idx"] % 3 == 1:
        # the merge policy named at the reap (nothing conflicts here: it changes nothing about what is delivered or kept)
        opts["overwrite"] = bool(case["idx"] % 2)
        ctx.count("harvester_reaps_naming_a_merge_policy")
    sig = {"api": "reap", "farmer": kind, "fail": fail, "clean_up": str(case["clean_up"]), "allow_incomplete": case["allow_incomplete"],
           "wait": case["wait"]}
    order = Order()
    order.install()
    fp = SaveFailpoint()
    fp.install()
    pkind = "multi:s,s" if kind in ("harvester", "to_ds") else "float"
    var_names = ["y", "z"] if pkind.startswith("multi") else "y"
    # a sweep over a region where the function has no answer (every result NaN): still data to be delivered and kept
    nan_results = kind == "harvester" and fail in ("none", "save_fails") and case["idx"] % 4 == 2 and not case.get("nosync")
    ctl = os.path.join(tmp, "ctl.json")
    probe.write_ctl(ctl, **({"nan_results": True} if nan_results else {}))
    if nan_results:
        ctx.count("harvester_crops_whose_results_are_all_nan")
    fn = probe.Probe(pkind, ctl=ctl, name="dprobe")
    avals = list(range(1, n + 1))
    w = {"mode": "grid", "combos": [["a", avals]], "names": None, "cases": None, "constants": {}, "kind": pkind}
    data_file = None
    farmer = None
    pre_rows = 0

    def expected(p, ver=None):
        kw = dict(p)
        if ver is not None:
            kw["version"] = ver
        v = probe.make(pkind, kw)
        if nan_results and ver in (None, 1):
            v = tuple(float("nan") for _ in v) if isinstance(v, tuple) else float("nan")
        return {"y": v[0], "z": v[1]} if pkind.startswith("multi") else {"y": v}

    try:
        with quiet():
            if kind in ("raw", "to_ds"):
                crop = xyzpy.Crop(fn=fn, name=name, parent_dir=tmp, batchsize=bs, shuffle=case["shuffle"])
            else:
                wrong = ["only_one"] if pkind.startswith("multi") else ["y", "zz_extra"]
                runner = xyzpy.Runner(fn, wrong if fail == "wrong_descr" else var_names,
                                      resources={"version": 1} if kind == "harvester" else None)
                if kind == "runner":
                    farmer = runner
                elif kind == "harvester":
                    data_file = os.path.join(tmp, "hdata.h5")
                    if case["idx"] % 6 == 4:
                        # the harvester's file is named by a pathlib.Path
                        import pathlib
                        data_file = pathlib.Path(data_file)
                        ctx.count("farmers_whose_file_is_named_by_a_path_object")
                    hkw = {}
                    if case["idx"] % 4 == 2:
                        # the harvester opens its file in chunks (lazily, through dask): the same promises
                        hkw["chunks"] = {"a": 2}
                        ctx.count("harvester_crops_whose_harvester_is_chunked")
                    farmer = xyzpy.Harvester(runner, data_name=data_file, **hkw)
                    if case["idx"] % 3 == 0 and fail != "wrong_descr":
                        # the harvester already holds its dataset in memory (it harvested a point itself) BEFORE the other
                        # session writes: conflicts must be judged against the file as it is at reap time
                        farmer.harvest_combos({"a": [200]}, verbosity=0)
                        ctx.count("harvesters_with_memory_before_the_other_session_wrote")
                        # (the file keeps the modification time it has NOW through the other session's write: a coarse-
                        #  grained file system, a file put in place with preserved times)
                        hstat_ = os.stat(str(data_file))
                    if fail == "conflict" or case["idx"] % 2:
                        # pre-existing data: conflicting version at a=1 (conflict) or disjoint coordinates (a=100)
                        pre = xyzpy.Harvester(xyzpy.Runner(probe.Probe(pkind, name="dprobe"), var_names, resources={"version": 0 if fail == "conflict" else 1}),
                                              data_name=data_file)
                        pre.harvest_combos({"a": [1] if fail == "conflict" else [100]}, verbosity=0)
                        pre._full_ds.close()
                        if "hstat_" in dir():
                            os.utime(str(data_file), ns=(hstat_.st_atime_ns, hstat_.st_mtime_ns))
                            ctx.count("other_sessions_writes_that_kept_the_files_time_stamp")
                else:
                    data_file = os.path.join(tmp, "sdata.pkl")
                    if case["idx"] % 6 == 4:
                        import pathlib
                        data_file = pathlib.Path(data_file)
                        ctx.count("farmers_whose_file_is_named_by_a_path_object")
                    farmer = xyzpy.Sampler(runner, data_name=data_file, default_combos={"a": avals})
                    np.random.seed(case["idx"])
                    if case["idx"] % 2:
                        farmer.sample_combos(2, verbosity=0)
                        pre_rows = 2
                    else:
                        ctx.count("sampler_crops_whose_table_does_not_exist_yet")      # the reap is the table's first ever sync
                crop = farmer.Crop(name=name, parent_dir=tmp, batchsize=bs)
                crop.shuffle = case["shuffle"]
            if kind == "sampler":
                np.random.seed(case["idx"] + 1)
                crop.sow_samples(n, verbosity=0)
            else:
                cropkit.sow(crop, w, shuffle_at_sow=case["shuffle"] or None)
            B = len(cropkit.batch_files(tmp, name))
            to_grow = list(range(1, B + 1))
            missing_batch = None
            if fail == "incomplete":
                missing_batch = 1 + case["idx"] % B
                to_grow.remove(missing_batch)
            if to_grow:
                crop.grow(to_grow)
            bad_batch = None
            if fail == "overlong":
                # the LAST result file holds more entries than its batch (a stale result of an earlier, longer sow), and
                # the surplus values happen to be zeros / None: still not a complete, matching set of results
                bad_batch = B
                p = cropkit.result_files(tmp, name)[bad_batch]
                old = cropkit.read_pickle(p)
                import pickle as _pk
                with open(p, "wb") as f_:
                    _pk.dump(tuple(old) + ((0.0, 0) if case["idx"] % 2 else (None,)), f_)
                ctx.count("reaps_of_crops_with_surplus_falsy_results")
            if fail in ("truncated", "unreadable"):
                bad_batch = 1 + (case["idx"] // 3) % B
                p = cropkit.result_files(tmp, name)[bad_batch]
                data = open(p, "rb").read()
                open(p, "wb").write(data[:max(1, len(data) // 2)] if fail == "truncated" else b"garbage, not a pickle")
    except Exception as e:
        ctx.violation(case, "building the scenario raised %r" % (e,), dict(sig, step="setup", **exc_sig(e)))
        ctx.rmtree(tmp)
        return
    sampled_rows = None
    if kind == "sampler":
        sampled_rows = [kw for i in sorted(cropkit.batch_files(tmp, name)) for kw in cropkit.read_pickle(cropkit.batch_files(tmp, name)[i])]

    def do_reap(c, **o):
        if kind == "to_ds":
            return c.reap_combos_to_ds(var_names=["only_one"] if (fail == "wrong_descr" and not do_reap.corrected) else var_names, **o)
        return c.reap(**o)
    do_reap.corrected = False

    def judge_value(res, complete):
        """Exactness of a delivered result (complete crop) -- label-wise."""
        if not complete:
            return None
        if kind == "raw":
            d, _ = cropkit.compare_nest(res, w, {}, pkind)
            return d
        if kind == "sampler":
            rows = res.to_dict("records")
            if len(rows) != len(sampled_rows):
                return "%d rows for %d sown samples" % (len(rows), len(sampled_rows))
            for r in rows:
                if refmodel.deep_eq(r["y"], expected({"a": r["a"]})["y"]):
                    return "row a=%r carries y=%r" % (r["a"], r["y"])
            return None
        for a in avals:
            exp = expected({"a": a}, 1 if kind == "harvester" else None)
            for vn, ev in exp.items():
                got = res.sel(a=a)[vn].values
                if refmodel.deep_eq(got.item(), ev):
                    return "ds.sel(a=%d)[%s]=%r, expected %r" % (a, vn, got, ev)
        return None

    expect_fail = fail in ("truncated", "unreadable", "wrong_descr", "conflict", "save_fails", "overlong") or \
        (fail == "incomplete" and not case["allow_incomplete"]) or \
        (fail == "incomplete" and not to_grow)       # nothing finished at all: even a partial reap has nothing to infer from
    if fail == "save_fails":
        fp.remaining = 1
    before = cropkit.tree_snapshot(loc)
    data_before = open(data_file, "rb").read() if data_file and os.path.exists(data_file) else None
    err, res = None, None
    del order.events[:]
    try:
        with quiet(), warnings.catch_warnings():
            if case.get("strict_warnings"):
                # the reaping process turns warnings into errors (python -W error, pytest filterwarnings=error)
                warnings.simplefilter("error")
                ctx.count("reaps_with_warnings_turned_into_errors")
            c = xyzpy.Crop(name=name, parent_dir=tmp) if (case["idx"] % 2 and kind in ("raw", "to_ds")) else crop
            res = do_reap(c, **opts)
    except Exception as e:
        err = e
    warn_raise = bool(case.get("strict_warnings")) and isinstance(err, Warning) and not expect_fail
    ctx.count("attempts")
    bad = []
    after = cropkit.tree_snapshot(loc)
    eff_clean = (not case["allow_incomplete"]) if case["clean_up"] is None else case["clean_up"]
    ev1 = list(order.events)
    if expect_fail:
        if err is None:
            bad.append("reap succeeded although %s (options %s)" % (fail, opts))
        else:
            ctx.count("failed_attempts_tree_compared")
            if after != before:
                gone = "deleted entirely" if after is None else "changed: %s" % sorted(set(before) ^ set(after))[:4]
                bad.append("reap raised %s but the crop directory was %s" % (type(err).__name__, gone))
            if fail == "conflict" and data_file and open(data_file, "rb").read() != data_before:
                bad.append("a refused merge changed the harvester's file")
    elif warn_raise:
        # a warning surfaced as an exception: legitimate under that filter, but then the reap RAISED -> crop untouched, and
        # the same reap under the ordinary filters (the retry below) delivers the exact results
        ctx.count("reaps_that_raised_a_warning_as_error")
        if after != before:
            gone = "deleted entirely" if after is None else "changed: %s" % sorted(set(before) ^ set(after))[:4]
            bad.append("reap raised %s (a warning turned into an error) but the crop directory was %s" % (type(err).__name__, gone))
    else:
        if err is not None:
            bad.append("reap raised %r (options %s, scenario %s)" % (err, opts, fail))
        else:
            d = judge_value(res, complete=(fail != "incomplete"))
            if d:
                bad.append("delivered result is not exact: " + d)
            if eff_clean and after is not None:
                bad.append("crop directory still exists after a successful reap with clean_up=%r, allow_incomplete=%r" % (
                    case["clean_up"], case["allow_incomplete"]))
            if not eff_clean and after != before:
                bad.append("crop directory was %s although clean-up does not apply (clean_up=%r, allow_incomplete=%r)" % (
                    "deleted" if after is None else "modified", case["clean_up"], case["allow_incomplete"]))
    # for farmers the deletion must come after the sync has returned
    if kind in ("harvester", "sampler") and not case.get("nosync"):
        tag = "add_ds" if kind == "harvester" else "add_df"
        if "delete_all:enter" in ev1:
            i_del = ev1.index("delete_all:enter")
            if tag + ":exit" not in ev1[:i_del]:
                bad.append("the crop was deleted before the data was merged and saved (call order: %s)" % ev1)
            else:
                ctx.count("sync_before_delete_observed")

    # ---------------- correct the cause and reap again ----------------
    if (expect_fail or warn_raise) and not bad:
        try:
            with quiet():
                c = xyzpy.Crop(name=name, parent_dir=tmp) if kind in ("raw", "to_ds") else crop
                retry_opts = dict(opts)
                if fail in ("truncated", "unreadable", "overlong"):
                    got_bad = c.check_bad()
                    if sorted(int(x) for x in got_bad) != [bad_batch]:
                        bad.append("check_bad reported %r, the bad result is batch %d" % (got_bad, bad_batch))
                    c.grow_missing()
                elif fail == "incomplete":
                    c.grow_missing()
                elif fail == "wrong_descr":
                    do_reap.corrected = True
                    if farmer is not None:
                        rr = farmer if kind == "runner" else farmer.runner
                        rr.var_names = var_names
                        rr.var_dims = None
                elif fail == "conflict":
                    retry_opts_extra = {"overwrite": True}
                    res2 = c.reap(**retry_opts, **retry_opts_extra)
                if fail != "conflict":
                    res2 = do_reap(c, **retry_opts)
            d = judge_value(res2, complete=True)
            if d:
                bad.append("retry after correcting the cause is not exact: " + d)
            else:
                ctx.count("retries_exact")
            after2 = cropkit.tree_snapshot(loc)
            if eff_clean and after2 is not None:
                bad.append("crop directory still exists after the successful retry (clean-up applies)")
            if not eff_clean and after2 is None:
                bad.append("crop directory deleted by the retry although clean-up does not apply")
            if kind == "sampler" and not bad:
                disk = xyzpy.load_df(data_file)
                if len(disk) != pre_rows + n or len(farmer.full_df) != pre_rows + n:
                    bad.append("after the retry the sampler's table has %d rows on disk and %d in memory, expected %d (%d before + the crop's %d)" % (
                        len(disk), len(farmer.full_df), pre_rows + n, pre_rows, n))
            if kind == "harvester" and not bad:
                if farmer._full_ds is not None:
                    farmer._full_ds.close()
                disk = xyzpy.load_ds(data_file)
                for a in avals:
                    exp = expected({"a": a}, 1)
                    if refmodel.deep_eq(disk.sel(a=a)["y"].values.item(), exp["y"]):
                        bad.append("harvester file does not hold the delivered data at a=%d after the retry" % a)
                        break
        except Exception as e:
            bad.append("retry after correcting the cause (%s) raised %r" % (fail, e))
    elif not expect_fail and not bad and kind in ("harvester", "sampler") and fail != "incomplete" and not case.get("nosync"):
        try:
            if kind == "harvester":
                if farmer._full_ds is not None:
                    farmer._full_ds.close()
                disk = xyzpy.load_ds(data_file)
                for a in avals:
                    if refmodel.deep_eq(disk.sel(a=a)["y"].values.item(), expected({"a": a}, 1)["y"]):
                        bad.append("harvester file does not hold the delivered data at a=%d" % a)
                        break
            else:
                disk = xyzpy.load_df(data_file)
                if len(disk) != pre_rows + n:
                    bad.append("sampler file has %d rows, expected %d" % (len(disk), pre_rows + n))
        except Exception as e:
            bad.append("reading the farmer's file raised %r" % (e,))
    for msg in bad[:2]:
        ctx.violation(case, msg, dict(sig, oracle=" ".join(msg.split(" ")[:4])))
    fp.remaining = 0
    try:
        if farmer is not None and getattr(farmer, "_full_ds", None) is not None:
            farmer._full_ds.close()
    except Exception:
        pass
    ctx.rmtree(tmp)
    ctx.observe(case, key=(kind, fail, str(case["clean_up"]), case["allow_incomplete"], case["wait"], case["shape"], case["shuffle"], bool(case.get("strict_warnings"))),
                info={"raised": type(err).__name__ if err else None, "dir_after": "gone" if after is None else "kept",
                      "call_order": ev1})
