"""C10 -- killing a worker at any instant never corrupts what is later reaped.

Events: the shim's mutating-event sequence of the victim operation; for every crash point
(process killed right before that event) the surviving directory tree; the outcome of a
naive reap by a freshly loaded crop and of the documented recovery, each started from that
exact crash state in a new process; the harvester's data file.
Oracle: (1) the naive reap raises or returns exactly the reference result; (2) recovery
(re-sow if the sown files are incomplete, check_bad, grow_missing, reap) yields exactly the
uninterrupted result; (3) data that was in the harvester's file before is still loadable
from it right after the crash and present after recovery.
"""
import os
import glob

import numpy as np

from .. import probe, refmodel, cropkit, crash, fsshim
from ..common import quiet

PID = "C10"
LEVEL = "fault_enumeration"
TECHNIQUE = ("runtime monitoring with fault injection: fork-and-kill enumeration of every mutating file-system event "
             "(os/builtins.open shim incl. partial write prefixes and HDF5 open/close) of sow/grow/reap, with naive-reap and "
             "documented-recovery oracles run from each crash state")
RULE = ("victims sow / re-sow / grow(i) / Crop.grow(subset) / grow_missing / reap on raw, Runner, Harvester and Sampler crops "
        "(h5netcdf and joblib harvesters; TMPDIR on another file system where the machine has one; copies through sendfile modelled as chunked writes) of 2-4 batches (defined by batchsize, or by a num_batches that does not divide the case count) with multi-chunk results; the process is killed before EVERY mutating event (mkdir, create/truncate, "
        "each of up to three write prefixes per write, close, rename/replace, each unlink/rmdir of the clean-up, HDF5 "
        "create and close); for sow / re-sow kills the recovery is also run after already-queued workers grew the batches that exist; thorough adds a second kill during recovery on sampled first states; farmers with resources= whose recovery re-sows through the crop restored by name; twelve-batch crops; harvester files named by a pathlib.Path; recoveries that first peek with a partial reap and reap with the same object after another object grew the rest; one (scenario, crash "
        "point) is one execution; all are non-trivial")
ASSUMPTIONS = [
    "kill = process death at a Python-level file operation boundary (no reordering of completed writes, no power loss, no NFS)",
    "HDF5 writes happen below Python: at the Python level their crash points are 'before create/truncate', 'created but not closed' and 'closed'; the syscall-level strace injection (SIGKILL at the entry of every open/write/pwrite/ftruncate/close/rename/unlink on the data file and its temporary sibling) covers what happens in between",
    "the recovery is given the function / farmer again when it has to re-sow (as a user re-running the sow script would)",
    "only the harvester's dataset is required to survive; the sampler's table is observed, not judged",
]
EXHAUSTIVE = {"quick": True, "thorough": True}
EXHAUSTIVE_NOTE = "every mutating event of every generated victim run is a crash point; the scenarios themselves are a fixed matrix (quick) plus seeded variations (thorough)"
SHARDS = {"quick": 16, "thorough": 16}
MIN_REACH = {
    "recoveries_after_straggling_growers": {"quick": 40, "thorough": 300},
    "crash_points": {"quick": 450, "thorough": 4000},
    "naive_reaps_raised": {"quick": 150, "thorough": 1500},
    "naive_reaps_exact": {"quick": 20, "thorough": 200},
    "recoveries_exact": {"quick": 450, "thorough": 4000},
    "harvester_file_checked": {"quick": 40, "thorough": 400},
    "partial_write_states": {"quick": 100, "thorough": 1000},
    "syscall_crash_points": {"quick": 8, "thorough": 50},
    "recoveries_of_a_crop_of_twelve_batches": {"quick": 10, "thorough": 10},
    "recoveries_that_first_looked_with_a_partial_reap": {"quick": 15, "thorough": 15},
    "recoveries_of_a_harvester_whose_file_is_named_by_a_path_object": {"quick": 25, "thorough": 25},
    "recoveries_that_resowed_through_the_restored_crop_of_a_farmer_with_resources": {"quick": 20, "thorough": 150},
}
TIME_BUDGET = {"quick": 500, "thorough": 3400}
CASE_TIMEOUT = {"quick": 400, "thorough": 1200}

NAME = "c10"
T_VALS = list(range(40))


def cases(ctx):
    idx = 0
    base = []
    for farmer in ("raw", "runner", "harvester", "sampler"):
        for victim in ("sow", "grow_one", "grow_subset", "grow_missing", "reap", "resow"):
            if farmer == "sampler" and victim == "resow":
                continue
            base.append((farmer, victim))
    P = 3       # the crash points of one scenario are split over P cases (load balance across shards)
    for farmer, victim in base:
        for part in range(P):
            # the crop is defined by a batch size, or (every third scenario, and every sow/resow scenario of the raw and
            # harvester farmers) by a number of batches that does not divide the number of cases (5 cases in 3 batches)
            nb = 3 if (idx % 3 == 2 or (victim in ("sow", "resow") and farmer in ("raw", "harvester"))) else None
            yield {"farmer": farmer, "victim": victim, "n": 5, "bs": 2, "nb": nb, "shuffle": [False, True][idx % 2],
                   "engine": "joblib" if (farmer == "harvester" and victim in ("reap", "grow_missing", "resow")) else None,
                   "grown": [1] if victim.startswith("grow") else [], "idx": idx, "depth2": 0, "part": [part, P],
                   # (some farmers supply a constant argument that is not recorded with the data)
                   "peek": victim.startswith("grow") and idx % 2 == 0, "res": farmer != "raw" and idx % 4 in (1, 2), "pathname": farmer == "harvester" and victim in ("reap", "sow", "grow_missing")}
        idx += 1
    for farmer, victim in base:
        if victim in ("grow_subset", "grow_missing", "reap"):
            for part in range(2):
                yield {"farmer": farmer, "victim": victim, "n": 4, "bs": 1, "shuffle": [True, False, 7][idx % 3],
                       "grown": [2, 3] if victim.startswith("grow") else [], "idx": idx, "depth2": 0, "part": [part, 2]}
            idx += 1
    # a crop of TWELVE batches (two-digit batch ids) all grown but the second: the grower of that one is killed
    for farmer, victim in (("raw", "grow_missing"), ("runner", "grow_one"), ("harvester", "grow_missing")):
        for part in range(2):
            yield {"farmer": farmer, "victim": victim, "n": 12, "bs": 1, "shuffle": [False, True, 7][idx % 3],
                   "grown": [1] + list(range(3, 13)), "idx": idx, "depth2": 0, "part": [part, 2], "twelve": True}
        idx += 1
    # syscall-level cross-check (strace fault injection) of the files that are written below Python (HDF5)
    # or by pandas: the victim runs in a fresh interpreter and is SIGKILLed at the entry of its k-th
    # open/write/pwrite/ftruncate/close/rename/unlink on the data file or its temporary sibling
    SP = ctx.pick(8, 16)
    for farmer in (("harvester",) if ctx.quick else ("harvester", "sampler", "harvester", "harvester", "sampler", "harvester")):
        for part in range(SP):
            yield {"strace": True, "farmer": farmer, "victim": "reap", "n": 4 if ctx.quick else 4 + idx % 4, "bs": 2 if idx % 2 else 3, "shuffle": bool(idx % 2),
                   "grown": [], "idx": idx, "depth2": 0, "part": [part, SP], "max_points": ctx.pick(3, 1000)}
        idx += 1
    if not ctx.quick:
        rng = ctx.rng("var")
        for rep in range(9):
            for farmer, victim in base:
                n = rng.randint(3, 8)
                bs = rng.randint(1, 3)
                B = -(-n // bs)
                grown = sorted(rng.sample(range(1, B + 1), rng.randint(0, B - 1))) if victim.startswith("grow") else []
                sh = rng.choice([False, True, 5])
                nb = B if rng.random() < 0.35 else None
                for part in range(2):
                    yield {"farmer": farmer, "victim": victim, "n": n, "bs": bs, "nb": nb, "shuffle": sh,
                           "engine": "joblib" if (farmer == "harvester" and rep % 2) else None,
                           "grown": grown, "idx": idx, "depth2": 3 if rep < 3 else 0, "part": [part, 2],
                           "res": farmer != "raw" and rep % 3 == 1}
                idx += 1


# --------------------------------------------------------------------------- #
# scenario pieces (all run inside forked children)
# --------------------------------------------------------------------------- #

def _pkind(farmer):
    return {"raw": "array:40", "runner": "multi:s,a40", "harvester": "multi:s,a40", "sampler": "float"}[farmer]


def _res(case):
    """Constant arguments the runner supplies without recording them (resources=), for the scenarios that have them."""
    return {"r0": 7} if case.get("res") and case["farmer"] != "raw" else {}


def _mk(case, root):
    """(fn, farmer object or None) for this scenario."""
    import xyzpy
    farmer = case["farmer"]
    fn = probe.Probe(_pkind(farmer), name="cprobe")
    if farmer == "raw":
        return fn, None
    rkw = {"resources": _res(case)} if _res(case) else {}
    if farmer == "sampler":
        r = xyzpy.Runner(fn, "y", **rkw)
        return fn, xyzpy.Sampler(r, data_name=os.path.join(root, "samples.pkl"), default_combos={"a": list(range(1, case["n"] + 1))})
    r = xyzpy.Runner(fn, ["y", "z"], var_dims={"z": "t"}, var_coords={"t": T_VALS}, **rkw)
    if farmer == "runner":
        return fn, r
    import pathlib
    as_path = pathlib.Path if case.get("pathname") else str      # (the file named by a pathlib.Path, not a str)
    if case.get("engine") == "joblib":
        return fn, xyzpy.Harvester(r, data_name=as_path(os.path.join(root, "harvest.dmp")), engine="joblib")
    return fn, xyzpy.Harvester(r, data_name=as_path(os.path.join(root, "harvest.h5")))


def _new_crop(case, root):
    import xyzpy
    fn, f = _mk(case, root)
    kw = dict(name=NAME, parent_dir=root, batchsize=case["bs"])
    if case.get("nb"):
        kw = dict(name=NAME, parent_dir=root, num_batches=case["nb"])
    if f is None:
        return xyzpy.Crop(fn=fn, shuffle=case["shuffle"], **kw), f
    if case["farmer"] == "harvester":
        f.full_ds          # the harvester has looked at its data: the farmer stored with the crop holds that snapshot
    c = f.Crop(**kw)
    c.shuffle = case["shuffle"]
    return c, f


def _sow(case, root):
    crop, f = _new_crop(case, root)
    with quiet():
        if case["farmer"] == "sampler":
            np.random.seed(1234 + case["idx"])
            crop.sow_samples(case["n"], verbosity=0)
        else:
            crop.sow_combos({"a": list(range(1, case["n"] + 1))}, shuffle=case["shuffle"], verbosity=0)
    return crop


def _load_crop(root):
    import xyzpy
    return xyzpy.Crop(name=NAME, parent_dir=root)


def _setup(case, root):
    """Pre-state of the victim operation."""
    import xyzpy
    victim = case["victim"]
    with quiet():
        if case["farmer"] == "harvester":
            fn, h = _mk(case, root)
            h.harvest_combos({"a": [100, 101]}, verbosity=0)      # data from an earlier campaign
            h._full_ds.close()
        if case["farmer"] == "sampler":
            fn, s = _mk(case, root)
            np.random.seed(99)
            s.sample_combos(2, verbosity=0)
        if victim == "sow":
            return None
        crop = _sow(case, root)
        if case["farmer"] == "harvester":
            # another session merges more data into the harvester's file AFTER the crop was sown
            fn2, h2 = _mk(case, root)
            h2.harvest_combos({"a": [102]}, verbosity=0)
            h2._full_ds.close()
        if victim in ("reap", "resow"):
            crop.grow_missing()
        elif case["grown"]:
            crop.grow(list(case["grown"]))
    return None


def _victim(case, root):
    victim = case["victim"]
    with quiet():
        if victim in ("sow", "resow"):
            _sow(case, root)
            return None
        crop = _load_crop(root)
        B = crop.num_batches
        missing = list(crop.missing_results())
        if victim == "grow_one":
            crop.grow(missing[0])
        elif victim == "grow_subset":
            crop.grow(missing[:2])
        elif victim == "grow_missing":
            crop.grow_missing()
        elif victim == "reap":
            crop.reap()
    return None


def _expected_rows(case, root):
    """For sampler crops the sown cases are random: read them from the batch files."""
    rows = []
    files = cropkit.batch_files(root, NAME)
    for i in sorted(files):
        rows.extend(cropkit.read_pickle(files[i]))
    return rows


def _judge_value(case, res, sampled=None):
    """None if `res` is exactly the uninterrupted result, else a description."""
    farmer = case["farmer"]
    kind = _pkind(farmer)
    avals = list(range(1, case["n"] + 1))
    if farmer == "raw":
        w = {"mode": "grid", "combos": [["a", avals]], "names": None, "cases": None}
        d, _ = cropkit.compare_nest(res, w, {}, kind)
        return d
    if farmer == "sampler":
        rows = res.to_dict("records")
        if sampled is not None and len(rows) != len(sampled):
            return "%d rows for %d sown samples" % (len(rows), len(sampled))
        for r in rows:
            if refmodel.deep_eq(r["y"], probe.make(kind, {"a": r["a"], **_res(case)})):
                return "row a=%r carries y=%r" % (r["a"], r["y"])
        return None
    if sorted(res["a"].values.tolist()) != avals:
        return "coordinate a = %s" % (res["a"].values.tolist(),)
    for a in avals:
        v = probe.make(kind, {"a": a, **_res(case)})
        if refmodel.deep_eq(res.sel(a=a)["y"].values.item(), v[0]) or refmodel.deep_eq(res.sel(a=a)["z"].values, v[1]):
            return "values at a=%d are not the function's" % a
    return None


def _harvester_file_has(root, avals, engine="h5netcdf", res=None):
    """None if the harvester's file is loadable and holds exact data at every a in avals."""
    import xyzpy
    p = os.path.join(root, "harvest.h5")
    if engine == "joblib":
        p = os.path.join(root, "harvest.dmp")
    if not os.path.exists(p):
        return "the harvester's data file does not exist"
    try:
        with quiet():
            ds = xyzpy.load_ds(p, engine=engine)
    except Exception as e:
        return "the harvester's data file cannot be loaded: %r" % (e,)
    kind = _pkind("harvester")
    for a in avals:
        if a not in ds["a"].values.tolist():
            return "a=%d is no longer in the harvester's file" % a
        v = probe.make(kind, {"a": a, **(res or {})})
        if refmodel.deep_eq(ds.sel(a=a)["y"].values.item(), v[0]) or refmodel.deep_eq(ds.sel(a=a)["z"].values, v[1]):
            return "data at a=%d in the harvester's file changed" % a
    return None


def _naive(case, root):
    """A freshly loaded crop simply reaps."""
    try:
        with quiet():
            crop = _load_crop(root)
            sampled = _expected_rows(case, root) if case["farmer"] == "sampler" else None
            res = crop.reap()
    except BaseException as e:      # noqa  (refusing with an error is fine)
        return ("raised", type(e).__name__)
    d = _judge_value(case, res, sampled)
    if d is None and case["farmer"] == "harvester":
        d = _harvester_file_has(root, _earlier(case) + list(range(1, case["n"] + 1)), case.get("engine") or "h5netcdf", _res(case))
    return ("exact", None) if d is None else ("wrong", d)


def _stragglers(case, root):
    """Array-job workers queued before the sow was killed: each grows its batch if the crop can be loaded and the batch
    file is there; their failures are their own business."""
    import xyzpy
    with quiet():
        try:
            crop = _load_crop(root)
            ids = sorted(cropkit.batch_files(root, NAME))
        except BaseException:      # noqa
            return 0
        n = 0
        for i in ids:
            try:
                xyzpy.grow(i, crop=crop, verbosity=0)
                n += 1
            except BaseException:      # noqa
                pass
    return n


def _earlier(case):
    """Labels merged into the harvester's file before the victim operation (by earlier campaigns / other sessions)."""
    return [100, 101] + ([102] if case["victim"] != "sow" else [])


def _needs_resow(case, root):
    """'the crop's sown files are incomplete', as far as the library itself lets a user see it: the crop cannot be loaded,
    was never prepared, or reports fewer sown batches than its number of batches (or no results folder).  Nothing is
    read behind the library's back: a batch file that exists under its final name counts as sown."""
    import xyzpy
    loc = cropkit.crop_dir(root, NAME)
    try:
        with quiet():
            crop = xyzpy.Crop(name=NAME, parent_dir=root)
            if not crop.is_prepared():
                return True
            if crop.num_batches is None or crop.num_sown_batches != crop.num_batches:
                return True
    except Exception:
        return True
    if not os.path.isdir(os.path.join(loc, "results")) or not os.path.exists(os.path.join(loc, "xyz-function.clpkl")):
        return True
    return False


def _recover(case, root):
    """The documented recovery; returns ("exact"|"wrong"|"raised", detail)."""
    try:
        with quiet():
            if case["victim"] in ("sow", "resow") or _needs_resow(case, root):
                restored = None
                if case.get("res") and case["farmer"] in ("runner", "harvester"):
                    # the re-sow is done through the crop as found on disk (name and directory only), when it can be
                    # restored at all; else by running the sow script again
                    try:
                        restored = _load_crop(root)
                        if restored.farmer is None or restored.fn is None:
                            restored = None         # (no farmer or no function found with the crop: nothing to re-sow from)
                    except Exception:
                        restored = None
                if restored is not None:
                    restored.sow_combos({"a": list(range(1, case["n"] + 1))}, shuffle=case["shuffle"], verbosity=0)
                else:
                    _sow(case, root)
            crop = _load_crop(root)
            peeked = False
            if case.get("peek") and case["farmer"] in ("raw", "runner"):
                # the surviving driver first LOOKS at what is there (a partial reap), then has the missing batches grown
                # by another process (a re-queued worker), then reaps with the object it looked with
                try:
                    crop.reap(allow_incomplete=True)
                    peeked = True
                except Exception:
                    pass        # (nothing finished yet / not reapable: nothing to look at)
            crop.check_bad()
            if peeked:
                _load_crop(root).grow_missing()
            else:
                crop.grow_missing()
            sampled = _expected_rows(case, root) if case["farmer"] == "sampler" else None
            res = crop.reap()
    except BaseException as e:      # noqa
        import traceback
        return ("raised", "%s: %s | %s" % (type(e).__name__, str(e)[:200], traceback.format_exc(limit=-3)[-600:]))
    d = _judge_value(case, res, sampled)
    if d is None and case["farmer"] == "harvester":
        d = _harvester_file_has(root, _earlier(case) + list(range(1, case["n"] + 1)), case.get("engine") or "h5netcdf", _res(case))
    if d is None and os.path.exists(cropkit.crop_dir(root, NAME)):
        d = "crop directory still exists after the recovered reap"
    return ("exact", "restored-resow" if "restored" in dir() and restored is not None else ("peeked" if peeked else None)) if d is None else ("wrong", d)


def setup(ctx):
    """Warm the parent (zygote) so that forked children do not each pay first-use costs
    (xarray backend discovery, cloudpickle, pandas pickling...)."""
    import xyzpy
    # the processes' temporary directory ($TMPDIR) is on ANOTHER file system than the crop whenever this machine has one
    # (node-local /tmp against a shared work directory is the normal cluster layout): a move from there into the crop is a
    # copy, not a rename, and every forked victim / recovery process inherits the setting
    import tempfile
    import atexit
    import shutil as _sh
    shm = "/dev/shm"
    try:
        if os.path.isdir(shm) and os.access(shm, os.W_OK) and os.stat(shm).st_dev != os.stat(tempfile.gettempdir()).st_dev:
            d = tempfile.mkdtemp(prefix="vf-C10-tmpdir-", dir=shm)
            tempfile.tempdir = d
            os.environ["TMPDIR"] = d
            atexit.register(_sh.rmtree, d, True)
            ctx.count("runs_with_tmpdir_on_another_filesystem")
    except OSError:
        pass
    root = ctx.mkdtemp("warm")
    for farmer in ("harvester", "sampler", "raw"):
        case = {"farmer": farmer, "victim": "reap", "n": 3, "bs": 2, "shuffle": True, "grown": [], "idx": 0}
        sub = os.path.join(root, farmer)
        os.makedirs(sub)
        _setup(case, sub)
        _victim(case, sub)
        _recover(case, sub) if farmer == "raw" else None
    with quiet():
        xyzpy.load_ds(os.path.join(root, "harvester", "harvest.h5")).close()
    ctx.rmtree(root)


SYSCALLS = "openat,open,creat,write,pwrite64,writev,pwritev,ftruncate,truncate,close,rename,renameat,renameat2,unlink,unlinkat,fsync,fdatasync"


def run_strace_case(ctx, case):
    import re
    import sys
    import json
    import subprocess
    root = ctx.mkdtemp("c10s")
    side = ctx.mkdtemp("c10t")
    sig = {"api": "crash-syscall", "farmer": case["farmer"], "victim": case["victim"]}
    st, v = crash.run_forked(lambda: _setup(case, root))
    if st != "ok":
        raise AssertionError("scenario set-up failed: %r %r" % (st, v))
    pre = crash.snap(root)
    if case["farmer"] == "harvester":
        paths = [os.path.join(root, "harvest.h5"), os.path.join(root, "harvest.tmp.h5"), os.path.join(root, "harvest.h5.tmp")]
    else:
        paths = [os.path.join(root, "samples.pkl"), os.path.join(root, ".tmp-samples.pkl")]
    spec = os.path.join(side, "spec.json")
    with open(spec, "w") as f:
        json.dump({"op": "reap", "name": NAME, "parent": root, "out": os.path.join(side, "out.pkl")}, f)
    trace = os.path.join(side, "trace.txt")

    def run(inject=None):
        cmd = ["strace", "-f", "-qq", "-o", trace, "-e", "trace=" + SYSCALLS]
        if inject:
            cmd += ["-e", "inject=%s:signal=SIGKILL:when=%d" % inject]
        for p_ in paths:
            cmd += ["-P", p_]
        cmd += [sys.executable, "-m", "vf.actor", spec]
        try:
            r = subprocess.run(cmd, stdout=subprocess.DEVNULL, stderr=subprocess.PIPE, timeout=300,
                               env=dict(os.environ, VERIF_CHILD="1"))
            return r.returncode, r.stderr.decode(errors="replace")[-300:]
        except subprocess.TimeoutExpired:
            return "timeout", ""
    rc, err = run()
    if rc != 0:
        ctx.inconclusive_reason("strace run of the uninjured victim failed: rc=%r %s" % (rc, err))
        ctx.rmtree(root)
        ctx.rmtree(side)
        return
    counts = {}
    for line in open(trace):
        m = re.match(r"^\d+\s+(\w+)\(", line)
        if m:
            counts[m.group(1)] = counts.get(m.group(1), 0) + 1
    points = [(name, k) for name in sorted(counts) for k in range(1, counts[name] + 1)]
    part, nparts = case["part"]
    mine = [pt for i, pt in enumerate(points) if i % nparts == part][:case["max_points"]]
    ctx.counters["max_syscalls_on_data_file"] = max(ctx.counters.get("max_syscalls_on_data_file", 0), len(points))
    for (name, k) in mine:
        crash.restore(root, pre)
        rc, err = run((name, k))
        sub = dict(case, syscall=name, ordinal=k)
        if rc not in (137, -9):
            ctx.count("strace_injection_not_reached")
            continue
        ctx.count("syscall_crash_points")
        ctx.seen("syscall_kinds", name)
        state = crash.snap(root)
        bad = []
        if case["farmer"] == "harvester":
            st3, d3 = crash.run_forked(lambda: _harvester_file_has(root, _earlier(case), case.get("engine") or "h5netcdf", _res(case)))
            ctx.count("harvester_file_checked")
            if st3 != "ok" or d3 is not None:
                bad.append(("harvester-data-survives", "after SIGKILL at %s #%d on the data file: %s" % (name, k, d3 if st3 == "ok" else (st3, d3))))
        crash.restore(root, state)
        st2, r2 = crash.run_forked(lambda: _recover(case, root))
        if st2 != "ok" or r2[0] != "exact":
            bad.append(("recovery", "SIGKILL at %s #%d on the data file; documented recovery: %r" % (name, k, r2 if st2 == "ok" else (st2, r2))))
        else:
            ctx.count("recoveries_exact")
        if any(" timeout " in (" %s " % m.replace("(", " ").replace("'", " ").replace(",", " ")) for _, m in bad):
            ctx.inconclusive_reason("wall-clock watchdog fired in a forked step (loaded machine)")
            bad = [b for b in bad if " timeout " not in (" %s " % b[1].replace("(", " ").replace("'", " ").replace(",", " "))]
        for o, msg in bad[:2]:
            ctx.violation(sub, msg, dict(sig, oracle=o, crash_op=name))
        ctx.observe(sub, key=("strace", case["idx"], name, k), info={"syscall": name, "ordinal": k, "files_left": sorted(state)[:6]})
    ctx.rmtree(root)
    ctx.rmtree(side)


def run_case(ctx, case):
    if case.get("strace"):
        return run_strace_case(ctx, case)
    root = ctx.mkdtemp("c10")
    sig = {"api": "crash", "farmer": case["farmer"], "victim": case["victim"]}
    st, v = crash.run_forked(lambda: _setup(case, root))
    if st != "ok":
        raise AssertionError("scenario set-up failed: %r %r" % (st, v))
    pre = crash.snap(root)
    # uninjured run: the event sequence, and the sanity of the scenario itself
    st, v, events, unmon = crash.record_events(root, lambda: _victim(case, root))
    if st != "ok":
        ctx.violation(case, "uninterrupted %s failed: %r %r" % (case["victim"], st, v), dict(sig, oracle="uninterrupted"))
        ctx.rmtree(root)
        return
    if unmon:
        ctx.inconclusive_reason("unmonitored file mutations during %s: %s" % (case["victim"], unmon[:3]))
    ctx.count("max_events_per_victim", 0)
    ctx.counters["max_events_per_victim"] = max(ctx.counters["max_events_per_victim"], len(events))
    K = len(events)
    nviol = 0
    part, nparts = case.get("part", [0, 1])
    for k in range(K):
        if k % nparts != part and "k" not in case:
            continue
        if "k" in case and k != case["k"]:
            continue            # replay of one crash point
        if nviol >= 2:
            break
        crash.restore(root, pre)
        st, _ = crash.run_killed_at(root, lambda: _victim(case, root), k)
        if st == "timeout":
            ctx.inconclusive_reason("wall-clock watchdog fired in a forked step (loaded machine)")
            continue
        if st != "killed":
            raise AssertionError("kill point %d of %d not reached (%r): event sequence is not deterministic" % (k, K, st))
        state = crash.snap(root)
        ctx.count("crash_points")
        evname = events[k]
        if ":write(" in evname or ":close-w(" in evname:
            ctx.count("partial_write_states")
        sub = dict(case, crash_before=evname, k=k)
        bad = []
        # (3) harvester data survives the crash itself
        if case["farmer"] == "harvester":
            st3, d3 = crash.run_forked(lambda: _harvester_file_has(root, _earlier(case), case.get("engine") or "h5netcdf", _res(case)))
            ctx.count("harvester_file_checked")
            if st3 != "ok" or d3 is not None:
                bad.append(("harvester-data-survives", "after a kill before %s: %s" % (evname, d3 if st3 == "ok" else (st3, d3))))
        # (1) naive reap
        crash.restore(root, state)
        st1, r1 = crash.run_forked(lambda: _naive(case, root))
        if st1 != "ok":
            bad.append(("naive-reap", "naive reap process %s %r" % (st1, r1)))
        elif r1[0] == "wrong":
            bad.append(("naive-reap", "killed before %s; a plain reap then returned wrong or partial data as if complete: %s" % (evname, r1[1])))
        elif r1[0] == "raised":
            ctx.count("naive_reaps_raised")
        else:
            ctx.count("naive_reaps_exact")
        # (2) documented recovery
        crash.restore(root, state)
        st2, r2 = crash.run_forked(lambda: _recover(case, root))
        if st2 != "ok":
            bad.append(("recovery", "recovery process %s %r" % (st2, r2)))
        elif r2[0] != "exact":
            bad.append(("recovery", "killed before %s; documented recovery %s: %s" % (evname, r2[0], r2[1])))
        else:
            ctx.count("recoveries_exact")
            if case.get("pathname"):
                ctx.count("recoveries_of_a_harvester_whose_file_is_named_by_a_path_object")
            if case.get("twelve"):
                ctx.count("recoveries_of_a_crop_of_twelve_batches")
            if r2[1] == "peeked":
                ctx.count("recoveries_that_first_looked_with_a_partial_reap")
            if r2[1] == "restored-resow":
                ctx.count("recoveries_that_resowed_through_the_restored_crop_of_a_farmer_with_resources")
        # (2b) workers that were already queued when the sow was killed grow whatever complete batch files they find,
        # THEN the documented recovery runs: it must still reach the uninterrupted results
        if case["victim"] in ("sow", "resow") and not bad:
            crash.restore(root, state)
            st5, r5 = crash.run_forked(lambda: (_stragglers(case, root), _recover(case, root))[1])
            ctx.count("recoveries_after_straggling_growers")
            if st5 != "ok":
                bad.append(("recovery-after-stragglers", "recovery process %s %r" % (st5, r5)))
            elif r5[0] != "exact":
                bad.append(("recovery-after-stragglers", "killed before %s, queued workers then grew the batches already sown; documented recovery %s: %s" % (
                    evname, r5[0], r5[1])))
        # second kill during the recovery (sampled)
        if case.get("depth2") and not bad and k % max(1, K // case["depth2"]) == 0:
            crash.restore(root, state)
            s2, _, ev2, _ = crash.record_events(root, lambda: _recover(case, root))
            rng = ctx.rng("d2", case["idx"], k)
            for k2 in rng.sample(range(len(ev2)), min(4, len(ev2))):
                crash.restore(root, state)
                crash.run_killed_at(root, lambda: _recover(case, root), k2)
                st4, r4 = crash.run_forked(lambda: _recover(case, root))
                ctx.count("second_crash_points")
                if st4 != "ok" or r4[0] != "exact":
                    bad.append(("recovery-after-second-kill", "killed before %s, then again during recovery before %s: recovery %r" % (
                        evname, ev2[k2], r4)))
                    break
        # a wall-clock watchdog that fired in a forked step (a loaded machine) decides nothing: inconclusive, not a violation
        if any(" timeout " in (" %s " % m.replace("(", " ").replace("'", " ").replace(",", " ")) for _, m in bad):
            ctx.inconclusive_reason("wall-clock watchdog fired in a forked step (loaded machine)")
            bad = [b for b in bad if " timeout " not in (" %s " % b[1].replace("(", " ").replace("'", " ").replace(",", " "))]
        for o, msg in bad[:2]:
            ctx.violation(sub, msg, dict(sig, oracle=o, crash_op=evname.split(":")[1].split("(")[0],
                                         crash_file=os.path.basename(evname.split("(")[1].split(")")[0].split(" ")[0].split("->")[0])[:14]))
            nviol += 1
        ctx.observe(sub, key=(case["idx"], k), info={"event": evname, "naive": r1[0] if st1 == "ok" else st1,
                                                     "recovery": r2[0] if st2 == "ok" else st2})
    ctx.rmtree(root)
