"""C19 -- running statistics equal the statistics of the whole sample.

Monitors: icontract postconditions on RunningStatistics.update and RunningCovariance.update
(the real methods, so update_from_it, RunningCovarianceMatrix and estimate_from_repeats are
all covered), each comparing the object's state with an exact rational shadow accumulator of
everything fed so far; a counting wrapper around the sampled function of
estimate_from_repeats.
"""
import math
from fractions import Fraction

from .. import contracts
from ..common import quiet, exc_sig

PID = "C19"
LEVEL = "exploration"
TECHNIQUE = ("runtime monitoring: icontract postconditions on the real update methods against exact rational "
             "shadow accumulators (checked after every single update), call-counting wrapper for the stopping rule")
RULE = ("seeded samples of 1-500 finite floats (offsets up to 1e9, spreads down to 1e-3, several distributions incl. "
        "constant, two-point, heavy-tailed, sorted, alternating), fed one by one / in random chunks / permuted, and read between feeds (every read-out against the exact statistics of that prefix); 2-4 "
        "correlated series for covariances; long estimate runs beyond a thousand samples, estimates interrupted by Ctrl-C; estimate_from_repeats over (rtol, tol_scale, min_samples, max_samples) "
        "grids with constant, alternating, drifting and noisy generators, and generators whose draws are exactly zero now and then (0/1 trials, integer counts, all zero); matrix chunks mixing lists and one-shot iterators in one call; silent estimates without a stderr; estimates of a decorated function; distinct by sample spec; non-trivial when n >= 2")
ASSUMPTIONS = [
    "floating-point accuracy relative to the data scale: |mean - exact| <= 16(1+sqrt n) eps max|x|; "
    "|var - exact| <= 32(1+sqrt n) eps (max|x| sigma + eps max|x|^2); covariances likewise with both series' scales "
    "(constants calibrated on the unchanged tree with a >30x margin; a naive sum-of-squares formula is ~1e10x outside on ill-conditioned samples)",
    "stopping rule judged with the returned object's own mean/err (no tolerance): stop before the limit only if converged(rtol, tol_scale*rtol)",
]
SHARDS = {"quick": 4, "thorough": 16}
MIN_REACH = {
    "estimates_of_a_decorated_function": {"quick": 30, "thorough": 500},
    "silent_estimates_in_a_process_without_stderr": {"quick": 25, "thorough": 400},
    "contract_evals_rs_update": {"quick": 80000, "thorough": 3000000},
    "contract_evals_rc_update": {"quick": 30000, "thorough": 500000},
    "estimate_runs": {"quick": 300, "thorough": 10000},
    "estimate_runs_that_drew_exact_zeros": {"quick": 40, "thorough": 1200},
    "interrupted_estimates": {"quick": 10, "thorough": 150},
    "estimate_runs_beyond_1024_samples": {"quick": 3, "thorough": 30},
    "matrix_readouts_judged": {"quick": 200, "thorough": 3000},
    "ill_conditioned_samples": {"quick": 100, "thorough": 2000},
    "matrix_chunks_fed_as_one_shot_iterators": {"quick": 10, "thorough": 200},
    "matrix_chunks_mixing_lists_and_one_shot_iterators": {"quick": 10, "thorough": 200},
    "sequences_fed_as_numpy_arrays": {"quick": 60, "thorough": 500},
    "non_numbers_refused_between_feeds": {"quick": 40, "thorough": 400},
}
TIME_BUDGET = {"quick": 300, "thorough": 3000}

DISTS = ["gauss", "uniform", "constant", "twopoint", "cauchyish", "sorted", "alternating", "ints", "onebig"]


def cases(ctx):
    yield {"type": "repo_tests"}
    rng = ctx.rng("cases")
    for i in range(ctx.pick(900, 30000)):
        n = rng.choice([1, 2, 3, 5, rng.randint(1, 40), rng.randint(1, 500), rng.randint(100, 500)])
        yield {"type": "rs", "n": n, "offset": rng.choice([0.0, 1.0, -3.5, 1e3, -1e6, 1e9, -1e9, 10 ** rng.uniform(-6, 9)]),
               "spread": rng.choice([1.0, 1e-3, 1e3, 10 ** rng.uniform(-3, 6)]), "dist": rng.choice(DISTS),
               "sseed": rng.randint(0, 10 ** 9), "feed": rng.choice(["single", "chunks", "one_chunk", "mixed"]),
               "permute": rng.random() < 0.5}
    for i in range(ctx.pick(200, 6000)):
        yield {"type": rng.choice(["cov", "covmat", "covmat"]), "n": rng.randint(1, 300), "k": rng.randint(2, 4),
               "offset": rng.choice([0.0, 1e3, 1e9, -1e8]), "spread": rng.choice([1.0, 1e-3, 50.0]),
               "rho": rng.choice([0.0, 0.5, -0.9, 0.999, 1.0]), "sseed": rng.randint(0, 10 ** 9),
               "feed": rng.choice(["single", "chunks"])}
    for i in range(ctx.pick(400, 12000)):
        yield {"type": "est", "gen": rng.choice(["constant", "alternating", "noisy", "noisy", "drift", "zero_mean", "big_offset",
                                                  "bernoulli", "counts", "all_zero"]),
               "rtol": rng.choice([0.5, 0.1, 0.02, 1e-3, 1e-6, 0.0]), "tol_scale": rng.choice([1.0, 1e-3, 100.0, 0.0]),
               "min_samples": rng.choice([0, 1, 2, 5, 17]), "max_samples": rng.choice([1, 2, 3, 7, 50, 400]),
               "get": rng.choice(["stats", "samples", "samples", "mean"]), "verbosity": rng.choice([0, 0, 0, 2]),
               "sseed": rng.randint(0, 10 ** 9), "sigma": 10 ** rng.uniform(-4, 1)}
    # the user presses Ctrl-C while the function runs: sampling stops there and what is reported are the statistics of
    # exactly the samples drawn before
    for i in range(ctx.pick(24, 300)):
        yield {"type": "est", "gen": rng.choice(["noisy", "alternating", "drift"]), "rtol": rng.choice([1e-6, 0.0, 1e-3]), "tol_scale": 1.0,
               "min_samples": rng.choice([0, 2, 5]), "max_samples": rng.choice([50, 400]), "get": rng.choice(["stats", "samples", "mean"]),
               "verbosity": 0, "sseed": rng.randint(0, 10 ** 9), "sigma": 1.0, "interrupt_at": rng.randint(2, 40)}
    # long runs: limits beyond a thousand samples that are no round numbers, reached (tight tolerance) or nearly reached
    # (a tolerance met only after more than a thousand samples)
    for i in range(ctx.pick(8, 80)):
        yield {"type": "est", "gen": "noisy", "rtol": rng.choice([1e-6, 0.0, 0.0085, 0.007]), "tol_scale": rng.choice([0.0, 1e-3]),
               "min_samples": rng.choice([0, 5]), "max_samples": rng.choice([1025, 1100, 1500, 2049, 3001, 1031 + i]),
               "get": rng.choice(["stats", "samples", "mean"]), "verbosity": 0, "sseed": rng.randint(0, 10 ** 9), "sigma": 1.0, "long": True}


def _sample(rng, n, offset, spread, dist):
    if dist == "gauss":
        xs = [offset + spread * rng.gauss(0, 1) for _ in range(n)]
    elif dist == "uniform":
        xs = [offset + spread * rng.uniform(-1, 1) for _ in range(n)]
    elif dist == "constant":
        xs = [offset + spread] * n
    elif dist == "twopoint":
        xs = [offset + spread * rng.choice([-1, 1]) for _ in range(n)]
    elif dist == "cauchyish":
        xs = [offset + spread * math.tan(rng.uniform(-1.4, 1.4)) for _ in range(n)]
    elif dist == "sorted":
        xs = sorted(offset + spread * rng.gauss(0, 1) for _ in range(n))
    elif dist == "alternating":
        xs = [offset + spread * (1 if i % 2 else -1) * (1 + 1e-3 * i) for i in range(n)]
    elif dist == "ints":
        xs = [float(int(offset) % 10 ** 6 + rng.randint(-5, 5)) for _ in range(n)]
    elif dist == "onebig":
        xs = [offset + spread * rng.gauss(0, 1) for _ in range(n)]
        xs[rng.randrange(n)] += 1e6 * spread
    else:
        raise ValueError(dist)
    return xs


def setup(ctx):
    contracts.install_stats_contracts()
    contracts.install_format_contract()


def _drain(ctx, case, sig):
    for rec in contracts.drain():
        if rec["contract"] == "format_number_with_error":
            continue            # C20's business
        ctx.violation(case, "%s: %s" % (rec["contract"], rec["msg"]),
                      dict(sig, contract=rec["contract"], quantity=rec["msg"].split(" ")[0]))


def run_case(ctx, case):
    import xyzpy
    import xyzpy.utils as U
    typ = case["type"]
    if typ == "repo_tests":
        # the repository's own tests, run with the contracts switched on (one more workload)
        rep = contracts.run_repo_tests_with_contracts(("tests/test_utils.py",))
        ctx.count("repo_test_contract_evals", sum(v for k, v in rep["evals"].items() if k.startswith("Running")))
        for rec in rep["records"]:
            if rec["contract"] != "format_number_with_error":
                ctx.violation(case, "repository test suite with contracts on: %s: %s" % (rec["contract"], rec["msg"]), {"api": "repo-tests", "contract": rec["contract"]})
        ctx.observe(case, key="repo_tests", nontrivial=True, info={"evals": rep["evals"], "pytest": rep.get("pytest_tail")})
        return
    e0 = dict(contracts.EVALS)
    rng = ctx.rng("sample", case["sseed"])
    sig = {"api": typ}

    if typ == "rs":
        xs = _sample(rng, case["n"], case["offset"], case["spread"], case["dist"])
        orders = [xs]
        if case["permute"]:
            ys = list(xs)
            rng.shuffle(ys)
            orders.append(ys)
        finals = []
        for seq in orders:
            rs = U.RunningStatistics()
            i = 0
            reads = 0
            # the numbers may arrive wrapped as 0-d / one-element numpy arrays (DataArray.values of a scalar, a row of a
            # table): same statistics, and the caller's arrays are the caller's - feeding must not write into them
            wrapped = None
            if case.get("pseed", len(seq)) % 4 == 1 and case["feed"] in ("single", "mixed"):
                import numpy as np
                wrapped = [np.asarray(x, dtype=float) if k_ % 2 else np.array([x], dtype=float)[0:1].reshape(()) for k_, x in enumerate(seq)]
                ctx.count("sequences_fed_as_numpy_arrays")
            refuse_at = len(seq) // 2 if (len(seq) % 5 == 3 and wrapped is None) else None
            while i < len(seq):
                if i == refuse_at:
                    # something that is not a number slips in (a failed measurement reported as None / text): it is refused,
                    # and the statistics go on describing exactly the numbers fed
                    refuse_at = None
                    for junk in (None, "n/a"):
                        try:
                            rs.update(junk)
                            ctx.violation(case, "update(%r) was accepted" % (junk,), dict(sig, oracle="refuses-non-numbers"))
                        except Exception:
                            ctx.count("non_numbers_refused_between_feeds")
                if case["feed"] == "single" or (case["feed"] == "mixed" and rng.random() < 0.5):
                    rs.update(seq[i] if wrapped is None else wrapped[i])
                    i += 1
                else:
                    j = len(seq) if case["feed"] == "one_chunk" else min(len(seq), i + rng.randint(1, 60))
                    it = seq[i:j] if rng.random() < 0.5 else iter(seq[i:j])
                    rs.update_from_it(it)
                    i = j
                if i < len(seq) and reads < 3 and rng.random() < 0.15:
                    # read the accumulator between feeds: it must describe exactly the prefix fed so far
                    reads += 1
                    shp = contracts.Shadow()
                    for x in seq[:i]:
                        shp.add(x)
                    for msg in contracts.judge_running_statistics(rs, shp):
                        ctx.violation(case, "after %d of %d samples: %s" % (i, len(seq), msg), dict(sig, oracle="prefix", quantity=msg.split(" ")[0]))
                    ctx.count("prefix_readouts_judged")
            if wrapped is not None:
                changed = [k_ for k_, (a_, x_) in enumerate(zip(wrapped, seq)) if float(a_) != float(x_)]
                if changed:
                    ctx.violation(case, "feeding the numbers as numpy arrays changed the caller's own arrays at positions %s (e.g. %r is now %r)" % (
                        changed[:3], seq[changed[0]], float(wrapped[changed[0]])), dict(sig, oracle="inputs-untouched"))
            finals.append((rs.count, float(rs.mean), float(rs.var), float(rs.std), float(rs.err)))
            # final state against an independently computed exact reference (not the shadow)
            fr = [Fraction(x) for x in seq]
            mu = sum(fr) / len(fr)
            var = sum((f - mu) ** 2 for f in fr) / len(fr)
            sh = contracts.Shadow()
            for x in seq:
                sh.add(x)
            if sh.mean != mu or sh.var != var:
                _drain(ctx, case, sig)
                raise AssertionError("shadow accumulator disagrees with the two-pass rational reference")
            for msg in contracts.judge_running_statistics(rs, sh):
                ctx.violation(case, "final state: " + msg, dict(sig, oracle="final", quantity=msg.split(" ")[0]))
            tol_mean, tol_var, sigma, scale = contracts.rs_tolerances(sh)
            if len(seq) > 1:
                ctx.counters["max_mean_err_over_tol_ppm"] = max(ctx.counters.get("max_mean_err_over_tol_ppm", 0),
                                                                int(1e6 * abs(rs.mean - float(mu)) / tol_mean))
                ctx.counters["max_var_err_over_tol_ppm"] = max(ctx.counters.get("max_var_err_over_tol_ppm", 0),
                                                               int(1e6 * abs(rs.var - float(var)) / tol_var))
            if sigma > 0 and scale / sigma > 1e6:
                ctx.count("ill_conditioned_samples")
        _drain(ctx, case, sig)
        contracts.forget_shadows()
        ctx.observe(case, key=(case["n"], case["offset"], case["spread"], case["dist"], case["feed"], case["permute"], case["sseed"]),
                    nontrivial=case["n"] >= 2,
                    info={"count_mean_var_std_err": finals[0], "permuted_too": case["permute"]})

    elif typ in ("cov", "covmat"):
        k = 2 if typ == "cov" else case["k"]
        n = case["n"]
        base = [rng.gauss(0, 1) for _ in range(n)]
        series = []
        for j in range(k):
            rho = case["rho"] if j else 1.0
            off = case["offset"] * (1 if j % 2 == 0 else -0.5)
            series.append([off + case["spread"] * (j + 1) * (rho * b + math.sqrt(max(0.0, 1 - rho * rho)) * rng.gauss(0, 1))
                           for b in base])
        if typ == "cov":
            rc = U.RunningCovariance()
            if case["feed"] == "single":
                for x, y in zip(*series):
                    rc.update(x, y)
            else:
                h = n // 2
                rc.update_from_it(series[0][:h], series[1][:h])
                rc.update_from_it(iter(series[0][h:]), iter(series[1][h:]))
            summary = (rc.count, rc.covar if rc.count else None)
        else:
            rcm = U.RunningCovarianceMatrix(k)
            bad = []

            def judge_prefix(m):
                """Every matrix read-out must describe exactly the first m samples (read-outs happen between feeds too:
                a long-lived accumulator is read, fed more, and read again)."""
                if rcm.count != m:
                    bad.append("matrix count %r != %d" % (rcm.count, m))
                cm = rcm.covar_matrix
                scm = rcm.sample_covar_matrix if m > 1 else None
                for a in range(k):
                    for b in range(k):
                        sh = contracts.Shadow2()
                        for x, y in zip(series[a][:m], series[b][:m]):
                            sh.add(x, y)
                        g = 1.0 + math.sqrt(m)
                        tol = contracts.K_COV * g * contracts.EPS * (
                            sh.ax * contracts.fsqrt(sh.vary) + sh.ay * contracts.fsqrt(sh.varx) + contracts.EPS * sh.ax * sh.ay) + 5e-324
                        if not abs(cm[a, b] - float(sh.cov)) <= tol:
                            bad.append("covar_matrix[%d,%d]=%r vs exact %r after %d of %d samples" % (a, b, cm[a, b], float(sh.cov), m, n))
                        if scm is not None and not abs(scm[a, b] - float(sh.cov) * m / (m - 1)) <= tol * m / (m - 1) * 1.01:
                            bad.append("sample_covar_matrix[%d,%d]=%r vs exact %r after %d of %d samples" % (
                                a, b, scm[a, b], float(sh.cov) * m / (m - 1), m, n))
                        if cm[a, b] != cm[b, a]:
                            bad.append("covar_matrix not symmetric at %d,%d" % (a, b))
                ctx.count("matrix_readouts_judged")
                return cm

            crng = ctx.rng("chunks", case["sseed"])
            if case["feed"] == "single":
                stops = set(crng.sample(range(1, n + 1), min(n, 3))) | {n}
                for i, row in enumerate(zip(*series)):
                    rcm.update(*row)
                    if i + 1 in stops and not bad:
                        cm = judge_prefix(i + 1)
            else:
                # chunks of random sizes, fed through update_from_it (lists, tuples, or one-shot iterators - as the sibling
                # update_from_it methods of RunningStatistics / RunningCovariance take them) or one by one, read in between
                cuts = sorted(set(crng.sample(range(1, n), min(n - 1, crng.randint(1, 3))))) if n > 1 else []
                lo = 0
                for hi in cuts + [n]:
                    how = crng.choice(["it", "it", "tuple", "single", "oneshot", "mixed"])
                    if how == "it":
                        rcm.update_from_it(*[s[lo:hi] for s in series])
                    elif how == "mixed":
                        # one call, some series as lists and others as one-shot iterators (a derived series computed on the fly)
                        rcm.update_from_it(*[s[lo:hi] if (k_ + lo) % 2 else (v_ for v_ in s[lo:hi]) for k_, s in enumerate(series)])
                        ctx.count("matrix_chunks_mixing_lists_and_one_shot_iterators")
                    elif how == "oneshot":
                        rcm.update_from_it(*[iter(s[lo:hi]) if k_ % 2 else (v_ for v_ in s[lo:hi]) for k_, s in enumerate(series)])
                        ctx.count("matrix_chunks_fed_as_one_shot_iterators")
                    elif how == "tuple":
                        rcm.update_from_it(*[tuple(s[lo:hi]) for s in series])
                    else:
                        for row in zip(*[s[lo:hi] for s in series]):
                            rcm.update(*row)
                    lo = hi
                    if not bad:
                        cm = judge_prefix(hi)
                    ctx.count("matrix_chunks_fed")
            for msg in bad[:2]:
                ctx.violation(case, msg, dict(sig, oracle="matrix", quantity=msg.split("[")[0]))
            summary = (rcm.count, [[float(v) for v in r] for r in cm][:2])
        _drain(ctx, case, sig)
        contracts.forget_shadows()
        ctx.observe(case, key=(typ, case["n"], case["k"], case["offset"], case["spread"], case["rho"], case["feed"], case["sseed"]),
                    nontrivial=n >= 2, info={"count_cov": summary})

    elif typ == "est":
        calls = []
        g = case["gen"]
        sg = case["sigma"]

        attempts = [0]

        def fn(scale=1.0):
            attempts[0] += 1
            if case.get("interrupt_at") and attempts[0] == case["interrupt_at"]:
                raise KeyboardInterrupt()
            i = len(calls)
            if g == "constant":
                x = 2.5
            elif g == "alternating":
                x = 1.0 + (0.5 if i % 2 else -0.5)
            elif g == "noisy":
                x = 3.0 + sg * rng.gauss(0, 1)
            elif g == "drift":
                x = 1.0 + 0.01 * i + sg * rng.gauss(0, 1)
            elif g == "zero_mean":
                x = sg * rng.gauss(0, 1)
            elif g == "bernoulli":
                # trial outcomes: the draw is EXACTLY zero (a falsy value) now and then; it still is a sample
                x = 1.0 if rng.random() < 0.3 else [0.0, -0.0][i % 2]
            elif g == "counts":
                x = rng.choice([0, 0, 1, 2, 3])            # integer counts, plain Python ints
            elif g == "all_zero":
                x = 0.0
            else:
                x = 1e9 + sg * rng.gauss(0, 1)
            x *= scale
            calls.append(x)
            return x

        if case["sseed"] % 6 == 1:
            # the sampled callable is a functools.wraps-decorated function: the decorator is what draws and records the
            # samples here (the function underneath returns something else): the callable GIVEN is the one to call
            import functools

            def undecorated(scale=1.0):
                return 0.0
            fn = functools.wraps(undecorated)(fn)
            ctx.count("estimates_of_a_decorated_function")
        kw = dict(rtol=case["rtol"], tol_scale=case["tol_scale"], min_samples=case["min_samples"],
                  max_samples=case["max_samples"], get=case["get"], verbosity=case["verbosity"])
        out, err = None, None
        no_stderr = case["verbosity"] == 0 and case["sseed"] % 5 == 2
        try:
            with quiet():
                if no_stderr:
                    # the program has no usable stderr (started with fd 2 closed, a windowed / daemon launcher): a silent
                    # estimate needs none
                    import sys
                    saved_err = sys.stderr
                    sys.stderr = None
                    ctx.count("silent_estimates_in_a_process_without_stderr")
                try:
                    if case["sseed"] % 2:
                        out = xyzpy.estimate_from_repeats(fn, **kw)
                    else:
                        out = xyzpy.estimate_from_repeats(fn, 2.0, **kw) if case["sseed"] % 4 == 0 else \
                            xyzpy.estimate_from_repeats(fn, scale=0.5, **kw)
                finally:
                    if no_stderr:
                        sys.stderr = saved_err
        except Exception as e:
            err = e
        ctx.count("estimate_runs")
        ctx.count("estimate_runs_that_drew_exact_zeros", 1 if any(x == 0 for x in calls) else 0)
        if case.get("long"):
            ctx.count("estimate_runs_beyond_1024_samples", 1 if len(calls) > 1024 else 0)
        if err is not None:
            ctx.violation(case, "estimate_from_repeats raised %r" % (err,), dict(sig, **exc_sig(err)))
            _drain(ctx, case, sig)
            ctx.observe(case, nontrivial=False)
            return
        bad = []
        rs = None
        if case["get"] == "samples":
            rs, xs = out
            if list(xs) != calls:
                bad.append("returned samples are not the values the function returned (%d vs %d calls)" % (len(xs), len(calls)))
        elif case["get"] == "mean":
            sh = contracts.Shadow()
            for x in calls:
                sh.add(x)
            tol_mean = contracts.rs_tolerances(sh)[0]
            if not abs(out - float(sh.mean)) <= tol_mean:
                bad.append("returned mean %r is not the mean of the %d drawn samples (%r)" % (out, len(calls), float(sh.mean)))
        else:
            rs = out
        n = len(calls)
        if case.get("interrupt_at"):
            ctx.count("interrupted_estimates")
            if attempts[0] > case["interrupt_at"]:
                bad.append("the function was called %d more times after the interrupt at call %d" % (attempts[0] - case["interrupt_at"], case["interrupt_at"]))
        if n > case["max_samples"]:
            bad.append("drew %d samples, limit max_samples=%d" % (n, case["max_samples"]))
        if n < 1:
            bad.append("drew no sample")
        if rs is not None:
            if rs.count != n:
                bad.append("reported count %r but the function was called %d times" % (rs.count, n))
            sh = contracts.Shadow()
            for x in calls:
                sh.add(x)
            for msg in contracts.judge_running_statistics(rs, sh):
                bad.append("reported statistics are not those of the drawn samples: " + msg)
            if n < case["max_samples"] and case.get("interrupt_at") and attempts[0] >= case["interrupt_at"]:
                ctx.count("stopped_by_interrupt")
                if rs.count != n:
                    bad.append("after an interrupt at call %d the reported count is %r, %d samples were drawn" % (case["interrupt_at"], rs.count, n))
            elif n < case["max_samples"]:
                atol = case["tol_scale"] * case["rtol"]
                if not (rs.err < case["rtol"] * abs(rs.mean) + atol):
                    bad.append("stopped after %d < max_samples=%d samples although err=%r >= rtol*|mean|+rtol*tol_scale=%r" % (
                        n, case["max_samples"], rs.err, case["rtol"] * abs(rs.mean) + atol))
                if n < min(case["min_samples"], case["max_samples"]):
                    bad.append("stopped after %d samples, fewer than min_samples=%d" % (n, case["min_samples"]))
                ctx.count("stopped_by_convergence")
            else:
                ctx.count("stopped_by_limit")
        elif n < case["max_samples"] and n < min(case["min_samples"], case["max_samples"]) and \
                not (case.get("interrupt_at") and attempts[0] >= case["interrupt_at"]):        # (an interrupt may stop earlier)
            bad.append("stopped after %d samples, fewer than min_samples=%d" % (n, case["min_samples"]))
        for msg in bad[:2]:
            ctx.violation(case, msg, dict(sig, oracle="estimate", what=msg.split(" ")[0]))
        _drain(ctx, case, sig)
        contracts.forget_shadows()
        ctx.observe(case, key=tuple(sorted((k, str(v)) for k, v in case.items())), nontrivial=n >= 2,
                    info={"calls": n, "max_samples": case["max_samples"],
                          "mean_err": (rs.mean, rs.err) if rs is not None else out})

    e1 = contracts.EVALS
    ctx.count("contract_evals_rs_update", e1.get("RunningStatistics.update", 0) - e0.get("RunningStatistics.update", 0))
    ctx.count("contract_evals_rc_update", e1.get("RunningCovariance.update", 0) - e0.get("RunningCovariance.update", 0))
