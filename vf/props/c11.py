"""C11 -- concurrent growers and a waiting reaper always agree, under every interleaving.

Events: per schedule the serialised trace of file operations (actor, op, path) on the
crop's results directory; the reaper's return value / exception; every poll's answer
together with the ground truth (number of COMPLETE result files, read by the monitor
itself bypassing the shim) at every step of the poll's window.
Oracle: reap(wait=True) returns exactly the reference result and never raises; a poll's
num_results lies between the min and max number of complete results during the poll;
is_ready_to_reap() true => all results were complete at some step of its window; no actor
raises; the run does not get stuck waiting.
"""
import os
import errno
import threading
import shutil

from .. import probe, probe_core, refmodel, cropkit, fsshim, sched
from ..common import quiet, exc_sig

PID = "C11"
LEVEL = "exploration"
TECHNIQUE = ("runtime monitoring under a cooperative scheduler: real growers, reap(wait=True) and progress pollers run as "
             "actors parked before every file operation on the results directory; sleep-set DFS visits every Mazurkiewicz "
             "trace of the small configurations, seeded random schedules beyond; ground truth read by the monitor at every step")
RULE = ("configurations: 1-3 growers (distinct batches, or the same batch twice) + a waiting reaper and/or a progress poller "
        "on crops of 1-3 batches with multi-chunk results; exhaustive up to partial-order equivalence (sleep-set DFS) for "
        "{1 grower + reaper, 1 batch}, {1 grower + poller}, {2 growers same batch + poller}, {2 growers distinct + reaper, "
        "2 batches} (capped, see evidence), seeded random schedules for the larger ones; configurations under an MPI launch (the first grower is rank 1: its function returns nothing useful and it must publish nothing); configurations whose first grower fails part-way through its result write with an error (ENOSPC injected by the shim) while a second grower of the same batch succeeds, by DFS and random schedules; the swept function seeds the global random generator; TMPDIR on another file system where the machine has one; reapers that wait AND would accept an incomplete crop (a batch finished beforehand); batches of 120 settings; the wait flag as True / 1 / numpy.True_; pollers that are long-lived Crop objects having seen an earlier complete cycle; a schedule is one execution, "
        "distinct by its Mazurkiewicz trace signature; non-trivial when it contains >= 2 actors' events interleaved")
ASSUMPTIONS = [
    "interleaving granularity = Python-level file operations (create, each of <= 3 write prefixes, close, rename, stat, open, read, list, unlink)",
    "when a poller is present the reaper is run with clean_up=False (a progress query racing with the deletion of the crop has no truth to be compared with); with the same batch grown twice the reaper runs with clean_up=False in the poller / write-fault / MPI configurations and with its DEFAULT clean-up in the *_cleanup ones, where the redundant grower may fail once the reaper has delivered",
    "sleep is virtual: a sleeper is rescheduled only after another actor mutated something; a run where all live actors sleep forever is reported as stuck",
]
SHARDS = {"quick": 8, "thorough": 16}
MIN_REACH = {
    "schedules_run": {"quick": 1500, "thorough": 40000},
    "distinct_traces": {"quick": 500, "thorough": 10000},
    "reaps_checked": {"quick": 800, "thorough": 20000},
    "polls_checked": {"quick": 1200, "thorough": 30000},
    "polls_during_write_in_progress": {"quick": 100, "thorough": 2000},
    "distinct_dfs_parts_exhausted": {"quick": 2, "thorough": 2},
    "growers_whose_result_write_failed_part_way": {"quick": 150, "thorough": 3000},
    "growers_running_as_a_non_root_mpi_rank": {"quick": 100, "thorough": 3000},
    "redundant_growers_that_found_the_crop_gone": {"quick": 30, "thorough": 600},
    "schedules_with_megabyte_results": {"quick": 9, "thorough": 40},
    "schedules_with_batches_of_120_settings": {"quick": 25, "thorough": 200},
    "schedules_polled_by_an_object_that_saw_an_earlier_cycle": {"quick": 40, "thorough": 300},
    "reaps_whose_wait_flag_is_1_or_a_numpy_bool": {"quick": 300, "thorough": 5000},
    "waiting_reaps_that_would_accept_an_incomplete_crop": {"quick": 200, "thorough": 3000},
}
TIME_BUDGET = {"quick": 400, "thorough": 3400}
CASE_TIMEOUT = {"quick": 380, "thorough": 3000}
NAME = "c11"

CONFIGS = {
    # name: (n settings, batchsize, growers [batch ids], reaper?, poller polls, exhaustive?)
    "g1_reaper": (2, 2, [1], True, 0),
    "g1_poller": (2, 2, [1], False, 2),
    "g2same_poller": (2, 2, [1, 1], False, 2),
    "g2same_reaper": (2, 2, [1, 1], True, 0),
    "g2_reaper": (4, 2, [1, 2], True, 0),
    "g2_reaper_poller": (4, 2, [2, 1], True, 2),
    "g3_reaper": (6, 2, [3, 1, 2], True, 0),
    "g3_reaper_poller": (3, 1, [1, 2, 3], True, 3),
    "g3mixed_poller": (4, 2, [1, 2, 1], False, 3),
    # the FIRST grower's result write fails part-way with an error (disk full / file size limit), a second grower of the
    # same batch succeeds: the failed attempt must never be visible to the reaper or counted by a poller
    "g2same_reaper_wfail": (2, 2, [1, 1], True, 0),
    "g2same_poller_wfail": (2, 2, [1, 1], False, 2),
    "g3mixed_reaper_poller_wfail": (4, 2, [1, 2, 1], True, 2),
    # the batch is grown under an MPI launch: the FIRST grower is rank 1 (its function returns nothing useful - the reduced
    # value lives on rank 0 - and it must publish nothing), the second one is rank 0
    "g2same_reaper_mpi": (2, 2, [1, 1], True, 0),
    "g2same_poller_mpi": (2, 2, [1, 1], False, 2),
    "g3mixed_reaper_poller_mpi": (4, 2, [1, 2, 1], True, 2),
    # the same batch grown twice while the reaper waits with its DEFAULT clean-up: the reaper reads the first finished copy,
    # and may start deleting the crop while the redundant grower is still about to publish - it must still return the exact
    # results (the redundant grower may then find the crop gone: its failure is its own)
    "g2same_reaper_cleanup": (2, 2, [1, 1], True, 0),
    "g3mixed_reaper_cleanup": (4, 2, [1, 2, 1], True, 0),
    # the reaper waits AND would accept an incomplete crop (reap(wait=True, allow_incomplete=True)); batch 1 was finished
    # before anybody started: waiting still means waiting, every value is the direct run's
    # LONG batches (120 settings each): whatever a grower does between its first and its last setting (progress output,
    # intermediate saves) must never be taken for a finished result
    "g1_poller_big": (120, 120, [1], False, 3),
    "g2_reaper_poller_big": (240, 120, [2, 1], True, 2),
    # the poller is a long-lived Crop object that has been through an earlier, complete cycle of this very crop
    "g1_poller_again": (2, 2, [1], False, 2),
    "g2_poller_again": (4, 2, [1, 2], False, 3),
    "g1_reaper_waitinc": (4, 2, [2], True, 0),
    "g2_reaper_waitinc": (6, 2, [3, 2], True, 0),
}


def cases(ctx):
    # exhaustive (sleep-set DFS) configurations; the big ones are split into independent
    # sub-searches (vf.sched.dfs_sleepsets part=(j, J)) and capped by a run budget
    yield {"cfg": "g1_reaper", "mode": "dfs", "cap": 5000, "kind": "array:30", "part": [0, 1]}
    yield {"cfg": "g1_poller", "mode": "dfs", "cap": 5000, "kind": "array:30", "part": [0, 1]}
    J = ctx.pick(2, 16)
    for cfg, cap in (("g2same_poller", ctx.pick(250, 8000)), ("g2_reaper", ctx.pick(250, 8000)),
                     ("g2same_reaper", ctx.pick(150, 8000)), ("g2same_reaper_wfail", ctx.pick(150, 4000)),
                     ("g2same_poller_wfail", ctx.pick(100, 4000)),
                     ("g2same_reaper_mpi", ctx.pick(100, 4000)), ("g2same_poller_mpi", ctx.pick(80, 4000)),
                     ("g2same_reaper_cleanup", ctx.pick(200, 6000)), ("g1_reaper_waitinc", ctx.pick(100, 4000)),
                     ("g2_reaper_waitinc", ctx.pick(80, 4000))):
        for j in range(J):
            yield {"cfg": cfg, "mode": "dfs", "cap": cap, "kind": "array:30", "part": [j, J]}
    # validation of the reduction itself: brute force over ALL interleavings vs. sleep sets
    yield {"cfg": "g1_poller", "mode": "validate", "cap": 20000, "kind": "int", "polls": 1}
    if not ctx.quick:
        yield {"cfg": "g1_reaper", "mode": "validate", "cap": 20000, "kind": "int"}
    # results that are LARGE arrays (megabytes per result file): the same promise, whatever way the bytes reach the file
    for cfg in ("g1_reaper", "g1_poller", "g2_reaper"):
        yield {"cfg": cfg, "mode": "random", "n": ctx.pick(6, 25), "seed": 77, "kind": "array:140000", "stick": 0.5, "large": True}
    for cfg in ("g1_poller_again", "g2_poller_again"):
        yield {"cfg": cfg, "mode": "random", "n": ctx.pick(40, 300), "seed": 79, "kind": "int", "stick": 0.4}
    for cfg in ("g1_poller_big", "g2_reaper_poller_big"):
        yield {"cfg": cfg, "mode": "random", "n": ctx.pick(25, 200), "seed": 78, "kind": "int", "stick": 0.3, "big": True}
    # seeded random schedules
    rng = ctx.rng("random")
    for i in range(ctx.pick(40, 700)):
        cfg = rng.choice(list(CONFIGS))
        yield {"cfg": cfg, "mode": "random", "n": ctx.pick(50, 90), "seed": rng.randint(0, 10 ** 9), "kind": rng.choice(["array:30", "tuple:2", "str"]),
               "stick": rng.choice([0.0, 0.5, 0.8])}


def setup(ctx):
    """The growers' temporary directory ($TMPDIR) is on ANOTHER file system than the crop whenever this machine has one
    (node-local /tmp against a shared work directory is the normal cluster layout): whatever the code does with
    temporary files, a move from there into the crop is a copy, not a rename."""
    import tempfile
    shm = "/dev/shm"
    try:
        if os.path.isdir(shm) and os.access(shm, os.W_OK) and os.stat(shm).st_dev != os.stat(tempfile.gettempdir()).st_dev:
            d = tempfile.mkdtemp(prefix="vf-C11-tmpdir-", dir=shm)
            tempfile.tempdir = d
            os.environ["TMPDIR"] = d
            import atexit
            atexit.register(shutil.rmtree, d, True)
            ctx.count("runs_with_tmpdir_on_another_filesystem")
    except OSError:
        pass


class _EnvView(object):
    """os.environ as each grower PROCESS would see it: the MPI rank variable is per actor (a thread here), whatever the
    code does before it reads it; everything else is the real environment."""

    def __init__(self, real, var):
        self._real, self._var = real, var

    def _rank(self):
        return getattr(threading.current_thread(), "vf_rank", None)

    def __contains__(self, k):
        return (self._rank() is not None) if k == self._var else (k in self._real)

    def __getitem__(self, k):
        if k == self._var:
            if self._rank() is None:
                raise KeyError(k)
            return str(self._rank())
        return self._real[k]

    def get(self, k, d=None):
        try:
            return self[k]
        except KeyError:
            return d

    def __getattr__(self, n):
        return getattr(self._real, n)


class _OsView(object):
    def __init__(self, environ):
        self.environ = environ

    def __getattr__(self, n):
        return getattr(os, n)


class World(object):
    """One configuration: a sown crop kept as a template, copied fresh for every schedule."""

    def __init__(self, ctx, cfg, kind, polls=None):
        import xyzpy
        self.n, self.bs, self.growers, self.reaper, self.polls = CONFIGS[cfg]
        if polls is not None:
            self.polls = polls
        self.kind = kind
        self.base = ctx.mkdtemp("c11")
        self.template = os.path.join(self.base, "template")
        self.root = os.path.join(self.base, "run")
        os.makedirs(self.template)
        # the swept function seeds the global random generator at every call (a "reproducible" simulation does): whatever
        # the growers draw from it afterwards is the same in every grower
        ctl = os.path.join(self.base, "ctl.json")
        probe.write_ctl(ctl, seed_random=4242)
        fn = probe.Probe(kind, name="gprobe", ctl=ctl)
        with quiet():
            crop = xyzpy.Crop(fn=fn, name=NAME, parent_dir=self.template, batchsize=self.bs)
            crop.sow_combos({"a": list(range(1, self.n + 1))}, verbosity=0)
            if cfg.endswith("_waitinc"):
                crop.grow(1)
        self.waitinc = cfg.endswith("_waitinc")
        self.again = cfg.endswith("_again")
        # the wait flag as True, as the int 1 (an argparse flag) or as a numpy bool (the result of a comparison)
        import numpy as _np
        self.wait_flag = [True, 1, _np.True_][(len(cfg) + len(kind)) % 3]
        self.B = crop.num_batches
        self.w = {"mode": "grid", "combos": [["a", list(range(1, self.n + 1))]], "names": None, "cases": None}
        self.same_batch_twice = len(set(self.growers)) < len(self.growers)
        self.wfail = cfg.endswith("_wfail")
        self.cleanup = cfg.endswith("_cleanup")
        self.mpi = ["PMI_RANK", "OMPI_COMM_WORLD_RANK"][len(kind) % 2] if cfg.endswith("_mpi") else None
        self.resdir = os.path.join(self.root, ".xyz-" + NAME, "results")

    def fresh(self):
        if os.path.exists(self.root):
            shutil.rmtree(self.root)
        shutil.copytree(self.template, self.root)

    def complete_results(self):
        """Ground truth, read by the monitor bypassing the shim: result files that exist under
        their final name AND unpickle completely with the right length."""
        n = 0
        with fsshim.muted():
            for i in range(1, self.B + 1):
                p = os.path.join(self.resdir, "xyz-result-%d.jbdmp" % i)
                try:
                    r = cropkit.read_pickle(p)
                    if isinstance(r, tuple) and len(r) >= 1:
                        n += 1
                except Exception:
                    pass
        return n

    def files_in_results(self):
        with fsshim.muted():
            try:
                return len(os.listdir(self.resdir))
            except OSError:
                return 0

    def visible_results(self):
        with fsshim.muted():
            try:
                return len([f for f in os.listdir(self.resdir) if f.startswith("xyz-result-") and f.endswith(".jbdmp")])
            except OSError:
                return 0


def run_schedule(world, chooser):
    """Execute one schedule of the configuration; returns a dict of observations."""
    import xyzpy
    world.fresh()
    root = world.root
    veteran = None
    if world.again:
        # the poller's Crop object is a long-lived one: it has already seen this crop through a whole earlier cycle (sown,
        # grown, complete, reaped - which deleted it) and then sowed it again, the same way
        with quiet():
            veteran = xyzpy.Crop(name=NAME, parent_dir=root)
            veteran.grow_missing()
            _ = (veteran.num_results, veteran.is_ready_to_reap(), str(veteran))
            veteran.reap()
            veteran.sow_combos({"a": list(range(1, world.n + 1))}, verbosity=0)
    fsshim.install(root, None)
    fsshim.reset_counts()
    sched.install_sleep_patch()
    resdir = world.resdir
    truth = []          # complete-result count after every scheduler step
    visible = []
    writing = []        # a result (or its temporary file) is being written at that step

    def contended(ev):
        return ev.path.startswith(resdir)

    def monitor(s):
        truth.append(world.complete_results())
        visible.append(world.visible_results())
        writing.append(world.files_in_results() > truth[-1])

    S = sched.Scheduler(root, contended, chooser, monitor=monitor)
    polls = []
    injected = []

    def write_fault(actor, path, off, count):
        # g0's transfer of a result chunk beyond the first byte fails, once
        if world.wfail and actor == "g0" and not injected and off > 0 and path.startswith(resdir):
            injected.append(OSError(errno.ENOSPC, "No space left on device (injected)"))
            return injected[0]
        return None
    fsshim.set_write_fault(write_fault if world.wfail else None)

    def grower(i, j=None):
        def f():
            crop = xyzpy.Crop(name=NAME, parent_dir=root)
            if world.mpi and j is not None:
                # (an actor runs undisturbed from here to its first operation on the results directory, and grow() reads
                #  the rank before that: each grower sees the rank set for it)
                rank = 1 if j == 0 else 0
                threading.current_thread().vf_rank = rank
                threading.current_thread().vf_nonroot = rank != 0
                if rank != 0:
                    nonroot.append(j)
            try:
                xyzpy.grow(i, crop=crop, verbosity=0)
            finally:
                threading.current_thread().vf_nonroot = False
                threading.current_thread().vf_rank = None
        return f
    nonroot = []

    def reaper():
        crop = xyzpy.Crop(name=NAME, parent_dir=root)
        if world.waitinc:
            return crop.reap(wait=world.wait_flag, allow_incomplete=True)
        return crop.reap(wait=world.wait_flag, clean_up=False if ((world.same_batch_twice and not world.cleanup) or world.polls) else None)

    def poller():
        crop = veteran if veteran is not None else xyzpy.Crop(name=NAME, parent_dir=root)
        for _ in range(world.polls):
            s0 = S.step
            nr = crop.num_results
            s1 = S.step
            ready = crop.is_ready_to_reap()
            s2 = S.step
            polls.append((s0, nr, s1, ready, s2))

    for j, b in enumerate(world.growers):
        S.add("g%d" % j, grower(b, j))
    if world.reaper:
        S.add("reaper", reaper)
    if world.polls:
        S.add("poller", poller)
    truth.append(world.complete_results())
    visible.append(world.visible_results())
    writing.append(False)
    from xyzpy.gen import cropping as _cropping
    real_os = _cropping.os
    if world.mpi:
        _cropping.os = _OsView(_EnvView(os.environ, world.mpi))
    try:
        with quiet():        # one redirection around the whole schedule (quiet() is not thread-safe)
            S.run()
    finally:
        fsshim.set_write_fault(None)
        _cropping.os = real_os
    return {"S": S, "injected": injected, "nonroot": nonroot, "polls": polls, "truth": truth, "visible": visible, "writing": writing, "unmonitored": list(fsshim.UNMONITORED)}


def judge(ctx, world, obs, case, extra_sig):
    """Oracle over one executed schedule. Returns number of violations reported."""
    S = obs["S"]
    sig = dict({"api": "concurrent", "cfg": case["cfg"]}, **extra_sig)
    nv = 0
    tr = [r for _, _, r in S.trace]
    wit = dict(case, schedule=[a for a, _, _ in S.trace], trace=tr[-60:])
    if S.status in ("steplimit", "watchdog"):
        ctx.inconclusive_reason("schedule hit %s" % S.status)
        return 0
    if S.status == "sleep-blocked":
        ctx.count("sleep_set_blocked_prefixes")
        return 0
    if S.status == "stuck-waiting":
        ctx.violation(wit, "all growers finished but the waiting reaper sleeps forever (complete results: %d of %d)" % (
            obs["truth"][-1], world.B), dict(sig, oracle="bounded-wait"))
        return 1
    for name, a in S.actors.items():
        if a.outcome[0] == "exc":
            e = a.outcome[1]
            if world.cleanup and name.startswith("g") and isinstance(e, OSError) and S.actors["reaper"].outcome[0] == "ok":
                ctx.count("redundant_growers_that_found_the_crop_gone")
                continue        # the reaper had delivered and was deleting the crop: the late grower's failure is its own
            if obs.get("injected") and name == "g0" and e is obs["injected"][0]:
                ctx.count("growers_whose_result_write_failed_part_way")
                continue        # the injected fault itself, surfacing in the grower it was injected into
            ctx.violation(wit, "actor %s raised %r under schedule %s" % (name, e, " ".join(tr[-25:])),
                          dict(sig, oracle="no-actor-raises", actor=name.rstrip("0123456789"), **exc_sig(e)))
            nv += 1
    if world.reaper and S.actors["reaper"].outcome[0] == "ok":
        ctx.count("reaps_checked")
        if world.wait_flag is not True:
            ctx.count("reaps_whose_wait_flag_is_1_or_a_numpy_bool")
        if world.waitinc:
            ctx.count("waiting_reaps_that_would_accept_an_incomplete_crop")
        d, _ = cropkit.compare_nest(S.actors["reaper"].outcome[1], world.w, {}, world.kind)
        if d:
            ctx.violation(wit, "reap(wait=True) returned a result that differs from the direct run: %s" % d, dict(sig, oracle="reap-exact"))
            nv += 1
    ctx.count("growers_running_as_a_non_root_mpi_rank", len(obs.get("nonroot", ())))
    truth, visible = obs["truth"], obs["visible"]
    for (s0, nr, s1, ready, s2) in obs["polls"]:
        ctx.count("polls_checked")
        lo, hi = min(truth[s0:s1 + 1]), max(truth[s0:s1 + 1])
        if any(w for w in obs["writing"][s0:s2 + 1]):
            ctx.count("polls_during_write_in_progress")
        if not (lo <= nr <= hi):
            ctx.violation(wit, "progress query counted %d finished results while between %d and %d results were complete during the query" % (nr, lo, hi),
                          dict(sig, oracle="poll-counts-complete"))
            nv += 1
        if ready and max(truth[s1:s2 + 1]) < world.B:
            ctx.violation(wit, "is_ready_to_reap() was True while at most %d of %d results were complete" % (max(truth[s1:s2 + 1]), world.B),
                          dict(sig, oracle="ready-implies-complete"))
            nv += 1
    # temp files being written count as "partial write in progress" for the reach counter
    if obs["unmonitored"]:
        ctx.inconclusive_reason("unmonitored mutations: %s" % obs["unmonitored"][:3])
    return nv


def run_case(ctx, case):
    world = World(ctx, case["cfg"], case["kind"], case.get("polls"))
    nviol = 0
    if case["mode"] == "replay_schedule":
        case = dict(case)
    if "schedule" in case:
        # replay of a witness: follow the recorded schedule exactly
        ch = sched.GuidedChooser(case["schedule"], {})
        obs = run_schedule(world, ch)
        judge(ctx, world, obs, case, {"mode": "replay"})
        ctx.observe({"cfg": case["cfg"], "replayed": len(case["schedule"])}, key=("replay", tuple(case["schedule"])))
        ctx.rmtree(world.base)
        return
    if case["mode"] == "random":
        rng = ctx.rng("sch", case["seed"])
        for i in range(case["n"]):
            if case.get("large"):
                ctx.count("schedules_with_megabyte_results")
            if case["cfg"].endswith("_again"):
                ctx.count("schedules_polled_by_an_object_that_saw_an_earlier_cycle")
            if case["cfg"].endswith("_big"):
                ctx.count("schedules_with_batches_of_120_settings")
            ch = sched.RandomChooser(rng, case["stick"])
            obs = run_schedule(world, ch)
            ctx.count("schedules_run")
            S = obs["S"]
            sigt = sched.trace_signature(S.trace)
            ctx.seen("traces", "%s|%s" % (case["cfg"], hash(sigt)))
            ctx.counters["max_events_per_schedule"] = max(ctx.counters.get("max_events_per_schedule", 0), len(S.trace))
            nviol += judge(ctx, world, obs, {k: v for k, v in case.items() if k not in ("n",)}, {"mode": "random"})
            ctx.observe({"cfg": case["cfg"], "mode": "random", "events": len(S.trace)},
                        key=(case["cfg"], hash(sigt)), nontrivial=len({a for a, _, _ in S.trace}) >= 2,
                        info={"status": S.status, "trace_tail": [r for _, _, r in S.trace][-12:]})
            if nviol >= 2:
                break
    elif case["mode"] == "dfs":
        runs = 0
        complete = True
        for obs, ch in sched.dfs_sleepsets(lambda c: run_schedule(world, c), max_runs=case["cap"] + 1,
                                           part=tuple(case.get("part", [0, 1]))):
            runs += 1
            if runs > case["cap"]:
                complete = False
                break
            S = obs["S"]
            ctx.count("schedules_run")
            if S.status == "done":
                sigt = sched.trace_signature(S.trace)
                ctx.seen("traces", "%s|%s" % (case["cfg"], hash(sigt)))
            ctx.counters["max_events_per_schedule"] = max(ctx.counters.get("max_events_per_schedule", 0), len(S.trace))
            nviol += judge(ctx, world, obs, case, {"mode": "dfs"})
            ctx.observe({"cfg": case["cfg"], "mode": "dfs", "events": len(S.trace)},
                        key=(case["cfg"], "dfs", runs), nontrivial=len({a for a, _, _ in S.trace}) >= 2,
                        info={"status": S.status, "trace_tail": [r for _, _, r in S.trace][-12:]})
            if nviol >= 2:
                complete = False
                break
        if complete:
            ctx.seen("dfs_parts_exhausted", "%s:%s" % (case["cfg"], case.get("part")))
        else:
            ctx.seen("dfs_parts_capped", "%s:%s" % (case["cfg"], case.get("part")))
    elif case["mode"] == "validate":
        # brute force over ALL interleavings vs. sleep-set DFS: same set of Mazurkiewicz classes
        sets = {}
        for use in (True, False):
            sigs = set()
            runs = 0
            for obs, ch in sched.dfs_sleepsets(lambda c: run_schedule(world, c), max_runs=case["cap"], use_sleep_sets=use):
                runs += 1
                if obs["S"].status == "done":
                    sigs.add(sched.trace_signature(obs["S"].trace))
            sets[use] = (sigs, runs)
        ctx.count("validation_bruteforce_runs", sets[False][1])
        ctx.count("validation_sleepset_runs", sets[True][1])
        ctx.count("validation_classes", len(sets[False][0]))
        if sets[False][1] >= case["cap"]:
            ctx.inconclusive_reason("brute-force validation of the DFS hit its cap")
        elif sets[True][0] != sets[False][0]:
            raise AssertionError("sleep-set DFS visited %d classes, brute force %d: the reduction is unsound or incomplete" % (
                len(sets[True][0]), len(sets[False][0])))
        ctx.observe({"cfg": case["cfg"], "mode": "validate"}, key=("validate", case["cfg"]),
                    info={"classes": len(sets[False][0]), "bruteforce_runs": sets[False][1], "sleepset_runs": sets[True][1]})
    ctx.rmtree(world.base)
