"""C14 -- saving and loading a dataset gives the same dataset back.

Events: load_ds(save_ds(ds)); the directory listing after every operation; lazy loads;
save_merge_ds twice; Harvester.add_ds / delete_ds on the same name.
Oracle: label-wise dataset equality (dims, coords, variables, values incl. complex and NaN,
dtype kind, attrs up to the documented None/True/False -> string rewriting for netCDF
engines); exactly one file, named <name> + engine extension iff the name had none, and
every entry point agrees on that name.
"""
import os
import shutil
import copy

import numpy as np

from .. import refmodel
from ..common import quiet, exc_sig

PID = "C14"
LEVEL = "exploration"
TECHNIQUE = ("runtime monitoring: real save/load/merge/delete round trips on generated datasets with directory-listing "
             "monitor, judged by a label-wise dataset-equivalence oracle")
RULE = ("seeded datasets (0-4 dims; int/float/complex/bool/str variables on subsets of the dims, scalars; int/float/str "
        "coordinates; NaN patterns; attrs of type int/float/str/list/ndarray/None/True/False) x engine {h5netcdf, joblib} "
        "x file names with / without extension (and with a non-extension dot) x chunks {None, int, dict} x entry point "
        "(save_ds/load_ds, save_merge_ds twice - also with a second save that adds fractional labels to an integer axis or longer labels to a string axis -, a narrow stored axis widened by the second save, loads with create_new=True -, Harvester add_ds/delete_ds incl. backup=True); second merges giving precedence to stored (complex) data; names given as pathlib.Path objects; megabyte datasets saved, loaded, saved over (also with the same size and time stamp) and re-loaded; attributes compared after a first save_merge_ds; distinct by dataset spec; non-trivial when "
        "the dataset has at least one variable with >= 1 dimension")
RULE += '; datasets without any data variable (coordinates / attributes only); the same name saved over and loaded again right after a default load'
ASSUMPTIONS = [
    "netcdf4 and zarr are not importable here and are not exercised",
    "attribute equality is up to numpy-scalar/array vs python scalar/list spelling; str variables may come back as object dtype",
    "'has an extension' means the name ENDS with one of the known engine extensions; names and directories that merely contain such text elsewhere are generated and have none",
]
SHARDS = {"quick": 6, "thorough": 16}
MIN_REACH = {
    "roundtrips": {"quick": 250, "thorough": 4000},
    "datasets_without_data_variables": {"quick": 8, "thorough": 120},
    "lazy_loads": {"quick": 60, "thorough": 1000},
    "merge_twice": {"quick": 50, "thorough": 800},
    "harvester_syncs_with_a_per_call_engine": {"quick": 20, "thorough": 300},
    "loads_with_create_new": {"quick": 100, "thorough": 1500},
    "merges_adding_fractional_labels_to_integer_axis": {"quick": 4, "thorough": 60},
    "merges_adding_longer_labels_to_a_string_axis": {"quick": 2, "thorough": 50},
    "merges_widening_a_narrow_stored_axis": {"quick": 6, "thorough": 100},
    "second_merges_giving_precedence_to_stored_complex_data": {"quick": 10, "thorough": 150},
    "megabyte_datasets_saved_loaded_and_saved_over": {"quick": 3, "thorough": 10},
    "names_given_as_path_objects": {"quick": 50, "thorough": 800},
    "listings_checked": {"quick": 500, "thorough": 8000},
    "harvester_name_checks": {"quick": 50, "thorough": 800},
    "harvester_deletes_with_backup": {"quick": 12, "thorough": 200},
    "directories_whose_name_contains_an_extension": {"quick": 30, "thorough": 500},
    "harvesters_built_by_the_label_decorator": {"quick": 7, "thorough": 150},
    "loads_into_memory_asked_for_explicitly": {"quick": 30, "thorough": 500},
}
TIME_BUDGET = {"quick": 400, "thorough": 3400}

EXT = {"h5netcdf": ".h5", "joblib": ".dmp"}
DIMS = ["a", "b", "t", "n", "w"]


def cases(ctx):
    rng = ctx.rng("cases")
    for i in range(ctx.pick(520, 8000)):
        nd = rng.choice([0, 1, 1, 2, 2, 3, 4])
        dims = rng.sample(DIMS, nd)
        sizes = {d: rng.randint(1, 4) for d in dims}
        coordt = {d: rng.choice(["int", "float", "str", "none"]) for d in dims}
        nvars = rng.randint(1, 4)
        if i % 9 == 4:
            nvars = 0       # a dataset of coordinates (and attributes) only: a grid prepared in advance, a blank file
        vs = []
        for j in range(nvars):
            k = rng.randint(0, nd)
            vs.append({"name": "v%d" % j, "dims": rng.sample(dims, k), "dtype": rng.choice(["float", "float", "int", "complex", "bool", "str", "int32", "timedelta", "datetime"]),
                       "nan": rng.choice(["none", "some", "all", "none"])})
        attrs = {}
        for k in range(rng.randint(0, 4)):
            attrs["at%d" % k] = rng.choice([3, 2.5, "text", [1, 2, 3], None, True, False, "ndarray", -7, "", 1e-30])
        engine = rng.choice(["h5netcdf", "h5netcdf", "joblib"])
        # (also names that merely CONTAIN the text of an extension somewhere - they have none)
        base = rng.choice(["data", "my_results", "run-3", "res.v2", "a b", "results.h5_backup", "scan.dmpx", "archive.h5files.v1"])
        named_ext = rng.random() < 0.5
        yield {"dims": dims, "sizes": sizes, "coordt": coordt, "vars": vs, "attrs": attrs, "engine": engine,
               "name": base + (EXT[engine] if named_ext else ""), "has_ext": named_ext,
               "chunks": rng.choice([None, None, 1, 2, "dict"]), "dseed": rng.randint(0, 10 ** 9),
               "mode": rng.choice(["roundtrip", "roundtrip", "merge_twice", "merge_twice", "harvester"])}
    # megabyte-sized datasets (two 300x300 / 400x400 variables), saved, loaded and saved over
    for i in range(ctx.pick(4, 12)):
        yield {"big": [300, 400][i % 2], "engine": ["joblib", "h5netcdf"][(i // 2) % 2], "dseed": i, "mode": "big"}


def build(case):
    import xarray as xr
    rng = np.random.default_rng(case["dseed"])
    coords = {}
    for d in case["dims"]:
        n = case["sizes"][d]
        t = case["coordt"][d]
        if t == "int":
            coords[d] = (np.arange(n) * 3 - 2)[rng.permutation(n)]
        elif t == "float":
            coords[d] = np.round(np.cumsum(rng.uniform(0.1, 2.0, n)) - 3.0, 3)
        elif t == "str":
            coords[d] = np.array(["k%d" % i for i in range(n)])
    data = {}
    for v in case["vars"]:
        shape = tuple(case["sizes"][d] for d in v["dims"])
        dt = v["dtype"]
        if dt == "float":
            x = rng.normal(size=shape)
        elif dt == "int":
            x = rng.integers(-1000, 1000, size=shape)
        elif dt == "int32":
            x = rng.integers(-1000, 1000, size=shape).astype("int32")
        elif dt == "complex":
            x = rng.normal(size=shape) + 1j * rng.normal(size=shape)
        elif dt == "bool":
            x = rng.integers(0, 2, size=shape).astype(bool)
        elif dt == "timedelta":
            # durations (how long each run took): numpy's timedelta64, with missing ones (NaT) where the pattern says so
            x = (rng.integers(1, 10 ** 6, size=shape) * 750).astype("timedelta64[ms]").astype("timedelta64[ns]")
            if v["nan"] != "none" and x.size:
                x = np.array(x)
                x[rng.random(size=shape) < 0.3] = np.timedelta64("NaT")
        elif dt == "datetime":
            x = (np.datetime64("2020-01-01", "ns") + (rng.integers(1, 10 ** 6, size=shape) * 10 ** 9).astype("timedelta64[ns]"))
        else:
            x = np.array(["s%d" % i for i in rng.integers(0, 50, size=int(np.prod(shape)) if shape else 1)]).reshape(shape) \
                if shape else np.array("s7")
        if dt in ("float", "complex") and v["nan"] != "none":
            x = np.array(x)
            if v["nan"] == "all":
                x[...] = np.nan
            elif x.size:
                m = rng.random(size=shape) < 0.4
                x[m] = np.nan
        data[v["name"]] = (tuple(v["dims"]), x)
    attrs = {k: (np.array([1.5, 2.5]) if a == "ndarray" else a) for k, a in case["attrs"].items()}
    return xr.Dataset(data, coords=coords, attrs=attrs)


def expected_attrs(attrs, engine):
    out = {}
    for k, v in attrs.items():
        if engine != "joblib" and (v is None or v is True or v is False):
            v = str(v)
        out[k] = v
    return out


def judge_equal(orig, loaded, engine):
    d = refmodel.ds_equiv(orig, loaded, check_attrs=False)
    if d:
        return d
    for name in orig.variables:
        a, b = orig[name], loaded[name]
        if tuple(a.dims) != tuple(b.dims):
            return "dims of %s: %s vs %s" % (name, a.dims, b.dims)
        ka, kb = a.dtype.kind, b.dtype.kind
        if ka in "OUS" and kb in "OUS":
            continue
        if ka != kb:
            return "dtype of %s changed kind: %s -> %s" % (name, a.dtype, b.dtype)
    if not refmodel.attrs_equal(expected_attrs(dict(orig.attrs), engine), dict(loaded.attrs)):
        return "attrs %r came back as %r" % (dict(orig.attrs), dict(loaded.attrs))
    return None


def _big_history(path, engine, n, seed):
    """Megabyte-sized dataset: save, load, then save OTHER data under the same name; what was loaded first is still what
    was saved first, and the load - change one number - save back cycle reads back with that change.  Runs in a forked
    child (a fault below Python must not take the check down)."""
    import xyzpy
    import xarray as xr
    rng = np.random.default_rng(seed)
    a, b = rng.normal(size=(n, n)), rng.normal(size=(n, n))
    first = xr.Dataset({"u": (("x", "y"), a), "w": (("x", "y"), b)}, coords={"x": np.arange(n), "y": np.arange(n) * 0.5})
    with quiet():
        xyzpy.save_ds(first, path, engine=engine)
        loaded = xyzpy.load_ds(path, engine=engine)
    d = refmodel.ds_equiv(first, loaded, check_attrs=False)
    if d:
        return "round trip of a %dx%d dataset: %s" % (n, n, d)
    second = first + 1.0
    fpath = path if os.path.exists(path) else path + EXT[engine]
    st1 = os.stat(fpath)
    with quiet():
        xyzpy.save_ds(second, path, engine=engine)
    d = refmodel.ds_equiv(first, loaded, check_attrs=False)
    if d:
        return "the dataset loaded first changed when other data was saved under the same name afterwards: %s" % d
    # the new file has the size of the old one; give it its time stamp too (a copy with preserved times, a coarse-grained
    # file system): what is loaded now is what is in the file now
    os.utime(fpath, ns=(st1.st_atime_ns, st1.st_mtime_ns))
    with quiet():
        now = xyzpy.load_ds(path, engine=engine)
    d = refmodel.ds_equiv(second, now, check_attrs=False)
    if d:
        return "after other data of the same shape was saved under the same name (the file keeping its size and time stamp), load_ds gives the OLD data: %s" % d
    with quiet():
        again = xyzpy.load_ds(path, engine=engine)
        again["u"].values[0, 0] = 42.0
        expect = again.copy(deep=True)
        xyzpy.save_ds(again, path, engine=engine)
        back = xyzpy.load_ds(path, engine=engine)
    d = refmodel.ds_equiv(expect, back, check_attrs=False)
    if d:
        return "load, change one number, save back under the same name: %s" % d
    return None


def run_case(ctx, case):
    import xyzpy
    import xarray as xr
    engine = case["engine"]
    if case.get("big"):
        from .. import crash
        root = ctx.mkdtemp("ds")
        path = os.path.join(root, "big" + EXT[engine])
        st, val = crash.run_forked(lambda: _big_history(path, engine, case["big"], case["dseed"]))
        ctx.count("megabyte_datasets_saved_loaded_and_saved_over")
        sig = {"api": "big", "engine": engine}
        if st != "ok":
            ctx.violation(case, "saving / loading a %dx%d dataset and saving over it: child process %s %r" % (case["big"], case["big"], st, val), dict(sig, oracle="big-history"))
        elif val:
            ctx.violation(case, val, dict(sig, oracle="big-history"))
        ctx.observe(case, key=("big", engine, case["big"]))
        ctx.rmtree(root)
        return
    root = tmp = ctx.mkdtemp("ds")
    if case["dseed"] % 6 == 5:
        # a directory whose NAME contains the text of an extension: it says nothing about the file
        tmp = os.path.join(root, "project.h5files")
        os.makedirs(tmp)
        ctx.count("directories_whose_name_contains_an_extension")
    path = os.path.join(tmp, case["name"])
    if case["dseed"] % 5 == 1:
        # the name is given as a pathlib.Path (what Path(project) / "data" gives), not as a str: the same file
        import pathlib
        path = pathlib.Path(path)
        ctx.count("names_given_as_path_objects")
    want_file = case["name"] if case["has_ext"] else case["name"] + EXT[engine]
    sig = {"api": case["mode"], "engine": engine, "has_ext": case["has_ext"]}
    ds = build(case)
    orig = ds.copy(deep=True)
    orig.attrs = copy.deepcopy(dict(ds.attrs))
    bad = []

    def listing_ok(step, expect_present=True):
        ctx.count("listings_checked")
        ls = sorted(os.listdir(tmp))
        want = [want_file] if expect_present else []
        if ls != want:
            bad.append(("file-name", "after %s the directory holds %s, expected %s (name given: %r, engine %s)" % (
                step, ls, want, case["name"], engine)))
            return False
        return True

    try:
        if case["mode"] == "roundtrip":
            with quiet():
                xyzpy.save_ds(ds, path, engine=engine)
            listing_ok("save_ds")
            with quiet():
                back = xyzpy.load_ds(path, engine=engine)
            ctx.count("roundtrips")
            d = judge_equal(orig, back, engine)
            if d:
                bad.append(("roundtrip", "load_ds(save_ds(ds)) differs: " + d))
            # the create_new convenience ("make a blank dataset if there is no file yet") must find the same file
            with quiet():
                back2 = xyzpy.load_ds(path, engine=engine, create_new=True)
            ctx.count("loads_with_create_new")
            d = judge_equal(orig, back2, engine)
            if d:
                bad.append(("roundtrip", "load_ds(..., create_new=True) of an existing file differs from what was saved: " + d))
            if hasattr(back2, "close"):
                back2.close()
            if case["dseed"] % 2 == 0 or not case["vars"]:
                # what the default load returned is in memory: the file is free again and the same name can be written
                # over (how save_merge_ds and a Harvester use load_ds)
                ctx.count("saves_over_a_file_just_loaded_by_default")
                ctx.count("datasets_without_data_variables", 0 if case["vars"] else 1)
                try:
                    with quiet():
                        xyzpy.save_ds(ds, path, engine=engine)
                        back4 = xyzpy.load_ds(path, engine=engine)
                    d = judge_equal(orig, back4, engine)
                    if d:
                        bad.append(("roundtrip", "saved over the file just loaded and loaded again: differs: " + d))
                except Exception as e:
                    bad.append(("no-exception", "saving over the file that a default load_ds had just read raised %r" % (e,)))
                    if hasattr(back, "close"):
                        back.close()
                listing_ok("save_ds over the file just loaded")
            if case["dseed"] % 3 == 2:
                # loading into memory asked for explicitly: same dataset, and (being in memory) it does not keep the file
                # busy - saving to the same name afterwards works as after the default load
                with quiet():
                    back3 = xyzpy.load_ds(path, engine=engine, load_to_mem=True)
                ctx.count("loads_into_memory_asked_for_explicitly")
                d = judge_equal(orig, back3, engine)
                if d:
                    bad.append(("roundtrip", "load_ds(..., load_to_mem=True) differs from what was saved: " + d))
                try:
                    with quiet():
                        xyzpy.save_ds(ds, path, engine=engine)
                except Exception as e:
                    bad.append(("no-exception", "saving again after load_ds(..., load_to_mem=True) raised %r (the dataset was said to be in memory)" % (e,)))
                    if hasattr(back3, "close"):
                        back3.close()
                listing_ok("save_ds after an explicit in-memory load")
            if engine != "joblib" and case["chunks"] is not None:
                ch = case["chunks"]
                if ch == "dict":
                    ch = {dd: 1 for dd in case["dims"][:2]}
                with quiet():
                    lazy = xyzpy.load_ds(path, engine=engine, chunks=ch)
                try:
                    d = judge_equal(orig, lazy.compute(), engine)
                    ctx.count("lazy_loads")
                    if d:
                        bad.append(("lazy", "load_ds(chunks=%r).compute() differs: %s" % (ch, d)))
                finally:
                    lazy.close()
        elif case["mode"] == "merge_twice":
            # numeric part only (merging NaN-fills, which changes bool/str dtypes by design of xarray)
            keep = [v["name"] for v in case["vars"] if v["dtype"] in ("float", "int", "complex", "int32")]
            split = next((dd for dd in case["dims"] if case["sizes"][dd] >= 2 and case["coordt"][dd] != "none"
                          and any(dd in v["dims"] for v in case["vars"] if v["name"] in keep)), None)
            if keep and split:
                sub = orig[keep]
                if case["dseed"] % 4 in (1, 2) and split in sub[keep[0]].dims and not any(sub[k].dtype.kind == "c" for k in keep):
                    # (one more output, complex-valued: an amplitude next to the numbers)
                    sub = sub.assign(amp=sub[keep[0]].astype(complex) * (0.5 - 2j))
                part1 = sub.isel({split: slice(0, 1)})
                part2 = sub.isel({split: slice(1, None)})
                if case["coordt"][split] == "int" and case["dseed"] % 3 == 0:
                    # the first save labels the axis with whole numbers, the second one adds fractional labels: what is
                    # loaded back must carry the labels as given (not squeezed through the first file's integer dtype)
                    newc = sub[split].values.astype(float)
                    newc[1:] += 0.5
                    sub_f = sub.assign_coords({split: newc})
                    part2 = sub_f.isel({split: slice(1, None)})
                    sub = sub_f
                    ctx.count("merges_adding_fractional_labels_to_integer_axis")
                if case["coordt"][split] in ("int", "float") and case["dseed"] % 3 == 1:
                    # the first save stores the axis in a NARROW type (float32 / int32, as files written by other tools
                    # or to save space do), the second adds labels only the wide type can hold (0.1, 2**40)
                    nlab = sub.sizes[split]
                    if case["coordt"][split] == "float":
                        c1 = (np.arange(nlab) * 0.5).astype("float32")
                        c2 = (np.arange(nlab) * 0.5).astype("float64")
                        c2[1:] += 0.1
                    else:
                        c1 = (np.arange(nlab) * 3).astype("int32")
                        c2 = (np.arange(nlab) * 3).astype("int64")
                        c2[1:] += 2 ** 40
                    part1 = sub.assign_coords({split: c1}).isel({split: slice(0, 1)})
                    sub_f = sub.assign_coords({split: c2})
                    part2 = sub_f.isel({split: slice(1, None)})
                    sub = sub_f
                    ctx.count("merges_widening_a_narrow_stored_axis")
                if case["coordt"][split] == "str" and case["dseed"] % 3 == 0:
                    # ... or short labels first and longer ones with the second save
                    newc = np.array([str(v) if i == 0 else str(v) + "_longer" for i, v in enumerate(sub[split].values.tolist())])
                    sub_f = sub.assign_coords({split: newc})
                    part2 = sub_f.isel({split: slice(1, None)})
                    sub = sub_f
                    ctx.count("merges_adding_longer_labels_to_a_string_axis")
                kw = {} if engine == "h5netcdf" and case["dseed"] % 2 else {"engine": engine}
                if engine == "joblib":
                    kw = {"engine": "joblib"}
                with quiet():
                    xyzpy.save_merge_ds(part1.copy(deep=True), path, **kw)
                listing_ok("save_merge_ds #1")
                kw2 = dict(kw)
                if case["dseed"] % 4 in (1, 2):
                    # the stored data has precedence (nothing overlaps here, so the policy changes nothing about the result)
                    kw2["overwrite"] = False
                    ctx.count("second_merges_giving_precedence_to_the_stored_data")
                    if any(sub[k].dtype.kind == "c" for k in sub.data_vars):
                        ctx.count("second_merges_giving_precedence_to_stored_complex_data")
                with quiet():
                    xyzpy.save_merge_ds(part2.copy(deep=True), path, **kw2)
                listing_ok("save_merge_ds #2")
                with quiet():
                    back = xyzpy.load_ds(path, engine=engine)
                ctx.count("merge_twice")
                d = refmodel.ds_equiv(sub, back, check_attrs=False)
                if d:
                    bad.append(("merge-twice", "two save_merge_ds calls on the same name did not merge (the first save's data must survive): " + d))
            else:
                with quiet():
                    xyzpy.save_merge_ds(ds, path, engine=engine)
                listing_ok("save_merge_ds")
                with quiet():
                    back = xyzpy.load_ds(path, engine=engine)
                ctx.count("roundtrips")
                # (nothing was stored under that name before: this is a plain save, attributes included)
                d = judge_equal(orig, back, engine)
                if d:
                    bad.append(("roundtrip", "load_ds after save_merge_ds (onto a name that held nothing yet) differs: " + d))
        else:
            if case["dseed"] % 2:
                h = xyzpy.Harvester(None, data_name=path, engine=engine)
                with quiet():
                    h.add_ds(ds)
            else:
                # the engine is named at the call, not at construction: saving, loading and naming must all follow it
                h = xyzpy.Harvester(None, data_name=path)
                with quiet():
                    h.add_ds(ds, engine=engine)
                ctx.count("harvester_syncs_with_a_per_call_engine")
            listing_ok("Harvester.add_ds")
            with quiet():
                back = xyzpy.load_ds(path, engine=engine)
            ctx.count("roundtrips")
            d = judge_equal(orig, back, engine)
            if d:
                bad.append(("roundtrip", "load_ds of the harvester's file differs: " + d))
            # a second harvester (new session) must find that same file
            h2 = xyzpy.Harvester(None, data_name=path, engine=engine)
            with quiet():
                full = h2.full_ds
            if full is None:
                bad.append(("file-name", "a new Harvester on the same data_name does not find the saved dataset (%s)" % want_file))
            else:
                d = judge_equal(orig, full, engine)
                if d:
                    bad.append(("roundtrip", "new Harvester's full_ds differs: " + d))
            ctx.count("harvester_name_checks")
            if case["dseed"] % 3 == 0:
                # delete with a backup: the file that save/load use is the one backed up, and the only thing left
                with quiet():
                    h2.delete_ds(backup=True)
                ctx.count("harvester_deletes_with_backup")
                ls = sorted(os.listdir(tmp))
                if len(ls) != 1 or not ls[0].startswith(want_file + ".BAK-"):
                    bad.append(("file-name", "after Harvester.delete_ds(backup=True) the directory holds %s, expected only a "
                                "backup of %s (name given: %r, engine %s)" % (ls, want_file, case["name"], engine)))
                else:
                    restored = os.path.join(tmp, "restored" + {"h5netcdf": ".h5", "joblib": ".dmp"}.get(engine, ".h5"))
                    shutil.copy(os.path.join(tmp, ls[0]), restored)
                    with quiet():
                        back = xyzpy.load_ds(restored, engine=engine)
                    d = judge_equal(orig, back, engine)
                    if d:
                        bad.append(("roundtrip", "the backup made by delete_ds(backup=True) differs from what was saved: " + d))
            else:
                with quiet():
                    h2.delete_ds()
                listing_ok("Harvester.delete_ds", expect_present=False)
            if case["dseed"] % 4 == 3:
                # the decorator form: label(..., harvester=<name>, engine=<engine>) builds the Harvester itself
                for f_ in os.listdir(tmp):
                    os.remove(os.path.join(tmp, f_))

                def _lab(a):
                    return 2.5 * a
                lf = xyzpy.label("y", harvester=path, engine=engine)(_lab)
                with quiet():
                    lf.harvest_combos({"a": [1, 2, 3]}, verbosity=0)
                ctx.count("harvesters_built_by_the_label_decorator")
                if listing_ok("label(harvester=..., engine=...) + harvest_combos"):
                    with quiet():
                        lb = xyzpy.load_ds(path, engine=engine)
                    if lb["y"].values.tolist() != [2.5, 5.0, 7.5]:
                        bad.append(("roundtrip", "the file written by the labelled function's harvester holds %r" % (lb["y"].values.tolist(),)))
                    if hasattr(lb, "close"):
                        lb.close()
                if lf.full_ds is not None and hasattr(lf.full_ds, "close"):
                    lf.full_ds.close()
    except Exception as e:
        bad.append(("no-exception", "%s raised %r" % (case["mode"], e)))
        sig.update(exc_sig(e))
    for o, msg in bad[:2]:
        ctx.violation(case, msg, dict(sig, oracle=o))
    ctx.rmtree(root)
    ctx.observe(case, key=(case["dims"], case["sizes"], case["coordt"], [(v["dims"], v["dtype"], v["nan"]) for v in case["vars"]],
                           sorted(map(str, case["attrs"].items())), engine, case["name"], case["chunks"], case["mode"]),
                nontrivial=any(v["dims"] for v in case["vars"]),
                info={"file": want_file, "vars": {v["name"]: [v["dtype"], v["dims"]] for v in case["vars"]}, "mode": case["mode"]})
