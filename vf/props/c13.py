"""C13 -- missing-data discovery reports exactly the locations that have no data.

Events: return values of find_missing_cases / parse_into_cases / is_case_missing on
generated datasets; Harvester.full_ds after harvesting exactly what was reported.
Oracle: brute force over the non-ignored dimensions: a location is missing iff every
variable is entirely null there (isnull) / entirely non-finite (isfinite); grid order; no
duplicates; requested locations with absent coordinates (far away and near misses of existing labels) are reported; after harvesting
the reported cases a second search returns nothing.
"""
import os
import itertools

import numpy as np

from .. import probe, refmodel
from ..common import quiet, exc_sig

PID = "C13"
LEVEL = "exploration"
TECHNIQUE = ("runtime monitoring: the real discovery functions are run on generated datasets and judged by an "
             "independent brute-force definition of 'no data at this location'; find->harvest->find loops on real Harvesters")
RULE = ("seeded datasets (1-4 parameter dims of size 1-4 named a-d or like keyword options of xarray (tolerance, drop, method), numeric and str coordinates, 1-3 variables on subsets of the "
        "dims with or without an internal dim, null patterns whole-cell / partial-cell / per-variable / none / all, inf "
        "values) x both null criteria x ignore_dims spellings (None, str, list, set) x Dataset/DataArray inputs; "
        "parse_into_cases with combos/cases incl. absent coordinates and partial locations; complex-valued variables with infinities / NaNs in either part; datasets of 2*10**5 and more numbers; searches repeated on the same object after its holes were filled in place; find->harvest->find loops; "
        "distinct by dataset spec; non-trivial when at least one location is missing and one is not")
RULE += '; internal axes of one entry or none (a variable over an empty axis holds no data anywhere, the others decide)'
ASSUMPTIONS = [
    "grid order = itertools.product order over the returned argument names, each in the dataset's coordinate order",
    "isfinite criterion is exercised on numeric variables only (np.isfinite is undefined on str data)",
]
SHARDS = {"quick": 6, "thorough": 16}
MIN_REACH = {
    "locations_judged": {"quick": 6000, "thorough": 90000},
    "datasets_with_a_variable_over_an_empty_internal_axis_next_to_one_with_data": {"quick": 8, "thorough": 120},
    "datasets_with_mixed_locations": {"quick": 100, "thorough": 1500},
    "find_harvest_find_loops": {"quick": 40, "thorough": 400},
    "absent_coordinate_requests": {"quick": 100, "thorough": 1500},
    "searches_with_a_progress_bar": {"quick": 60, "thorough": 800},
    "requested_grids_given_as_one_shot_iterables": {"quick": 30, "thorough": 400},
    "complex_valued_variables": {"quick": 80, "thorough": 1000},
    "datasets_of_a_hundred_thousand_and_more_numbers": {"quick": 3, "thorough": 12},
    "searches_repeated_on_the_same_dataset_after_filling_its_holes_in_place": {"quick": 30, "thorough": 500},
}
TIME_BUDGET = {"quick": 400, "thorough": 3400}
# (some parameter names coincide with keyword options of xarray's own selection methods: they are ordinary names here)
PDIMS = ["a", "b", "c", "d", "tolerance", "drop", "method"]


def cases(ctx):
    rng = ctx.rng("cases")
    for i in range(ctx.pick(600, 8000)):
        nd = rng.randint(1, 4)
        dims = rng.sample(PDIMS, nd)
        sizes = {d: rng.randint(1, 4) for d in dims}
        vs = []
        for j in range(rng.randint(1, 3)):
            k = rng.randint(1, nd)
            vs.append({"name": "v%d" % j, "dims": rng.sample(dims, k) if rng.random() < 0.5 else list(dims),
                       "internal": rng.random() < 0.4, "dtype": rng.choice(["float", "float", "obj"])})
        yield {"type": "find", "dims": dims, "sizes": sizes, "coordt": {d: rng.choice(["int", "float", "str", "int", "float", "str", "date", "dur"]) for d in dims},
               "vars": vs, "pattern": rng.choice(["cells"] * 4 + ["mixed"] * 3 + ["pervar"] * 2 + ["partial", "none", "all"] + ["infcells"] * 3),
               "p": rng.choice([0.2, 0.5, 0.8]), "inf": rng.random() < 0.3, "method": rng.choice(["isnull", "isnull", "isfinite"]),
               "ignore_as": rng.choice(["list", "set", "str", "tuple"]), "ignore_param": rng.random() < 0.25,
               "dseed": rng.randint(0, 10 ** 9), "da": rng.random() < 0.15,
               # the internal axis is of length ONE, or EMPTY (no time steps recorded yet): a variable over an empty axis
               # holds no data anywhere, the other variables still decide
               **({"tau_n": [1, 0][i % 2]} if i % 5 == 2 and any(v["internal"] for v in vs) else {})}
    # LARGE datasets (a couple of hundred locations, each a long internal axis: 10**5 and more numbers), with holes far
    # from the start of the leading dimension: whatever screening is done block-wise must label every block's locations
    for i in range(ctx.pick(4, 16)):
        dims = [["a", "b"], ["b", "a"], ["c", "a", "b"]][i % 3]
        sizes = {"a": 48, "b": 4, "c": 2}
        yield {"type": "find", "dims": dims, "sizes": {d: sizes[d] for d in dims}, "coordt": {d: ["int", "float", "str"][(i + k) % 3] for k, d in enumerate(dims)},
               "vars": [{"name": "v0", "dims": list(dims), "internal": True, "dtype": "float"}] + (
                   [{"name": "v1", "dims": list(dims), "internal": False, "dtype": "float"}] if i % 2 else []),
               "pattern": ["cells", "mixed", "infcells"][i % 3], "p": [0.05, 0.2][i % 2], "inf": False, "method": ["isnull", "isfinite"][(i // 3) % 2] if i % 3 != 2 else "isfinite",
               "ignore_as": "list", "ignore_param": False, "dseed": 1000 + i, "da": False, "tau_n": 1024, "large": True}
    for i in range(ctx.pick(50, 450)):
        yield {"type": "loop", "dseed": rng.randint(0, 10 ** 9), "kind": rng.choice(["float", "multi:s,a3"]),
               "npts": rng.randint(1, 7), "engine": rng.choice(["h5netcdf", "joblib", None])}


def _absent(rng, vals, typ):
    """A label the coordinate does not have - far away, or a near miss of an existing one (a longer / shorter string
    sharing its prefix, a fractional value on a whole-number axis, the next float)."""
    base = rng.choice(vals)
    if typ == "date":
        return np.datetime64("1999-01-01T00:00:00.000000001", "ns")
    if typ == "dur":
        return np.timedelta64(7, "ns")
    if typ == "str":
        cand = ["absent", str(base) + "0", str(base) + "_b", str(base)[:-1] or "q", str(base).upper() + "x"]
    elif typ == "int":
        cand = [999, int(base) + 0.5, int(base) + 0.25, -int(base) - 1000, float(int(base)) + 1e-6]
    else:
        cand = [123.456, float(base) + 1e-7, float(base) * (1 + 1e-12) + 1e-300 if base else 5e-324, -float(base) - 77.0]
    rng.shuffle(cand)
    for c in cand:
        if all(c != v for v in vals):
            return c
    return {"int": 999, "float": 123.456, "str": "absent"}[typ]


COMPLEX_VARS = [0]


def build(case):
    import xarray as xr
    rng = np.random.default_rng(case["dseed"])
    dims, sizes = case["dims"], case["sizes"]
    if case["pattern"] == "infcells":
        case = dict(case, inf=False, vars=[dict(v, dtype="float") for v in case["vars"]])
    coords = {}
    for d in dims:
        n = sizes[d]
        t = case["coordt"][d]
        coords[d] = {"int": (np.arange(n) * 2 + 1)[rng.permutation(n)], "float": np.round(np.cumsum(rng.uniform(0.1, 1, n)), 3),
                     "str": np.array(["k%d" % i for i in range(n)]),
                     # points in time / durations as labels (a 'day' parameter): numpy's own time types, ns resolution
                     "date": (np.datetime64("2021-03-01", "ns") + np.arange(n) * np.timedelta64(3, "D")).astype("datetime64[ns]"),
                     "dur": np.array([1500 * (i + 1) for i in range(n)], dtype="timedelta64[ms]").astype("timedelta64[ns]")}[t]
    full_shape = tuple(sizes[d] for d in dims)
    cellmask = rng.random(full_shape) < case["p"]          # True = this location has no data at all
    data = {}
    for vi, v in enumerate(case["vars"]):
        vd = list(v["dims"])
        shape = tuple(sizes[d] for d in vd) + ((case.get("tau_n", 3),) if v["internal"] else ())
        x = rng.normal(size=shape)
        # project the whole-cell mask onto this variable's dims: null where ALL cells sharing these coords are masked
        red = tuple(i for i, d in enumerate(dims) if d not in vd)
        proj = cellmask.all(axis=red) if red else cellmask
        order = [d for d in dims if d in vd]
        proj = np.transpose(proj, [order.index(d) for d in vd]) if len(vd) > 1 else proj
        pat = case["pattern"]
        m = np.zeros(shape, dtype=bool)
        if pat in ("cells", "mixed"):
            m |= proj[..., None] if v["internal"] else proj
        if pat in ("partial", "mixed"):
            m |= rng.random(shape) < 0.3
        if pat == "pervar":
            if vi % 2 == 0:
                m |= (proj[..., None] if v["internal"] else proj)
            else:
                m |= rng.random(shape) < 0.15
        if pat == "all":
            m[...] = True
        if pat == "infcells":
            # whole locations without finite data, but not a single NaN anywhere in the dataset
            mi = proj[..., None] if v["internal"] else proj
            x[np.broadcast_to(mi, shape)] = np.inf if vi % 2 == 0 else -np.inf
        x[m] = np.nan
        if case["inf"]:
            x[(rng.random(shape) < 0.15) & ~m] = np.inf
        if v["dtype"] == "obj" and case["method"] == "isnull":
            xo = np.empty(shape, dtype=object)
            it = np.nditer(x, flags=["multi_index", "zerosize_ok"])
            for val in it:
                xo[it.multi_index] = None if np.isnan(val) else "s%d" % int(abs(float(val)) * 100 % 97) if np.isfinite(val) else "inf"
            x = xo
        if x.dtype.kind == "f" and (case["dseed"] + vi) % 4 == 0:
            # a complex-valued output (an amplitude): an infinity may sit in the real or in the imaginary part, a NaN likewise
            xc = x.astype(complex)
            flip = (np.indices(shape).sum(axis=0) % 2 == 1) if shape else np.array(False)
            sel = ~np.isfinite(x) & flip
            xc.imag[sel] = x[sel]
            xc.real[sel] = 0.0
            x = xc
            COMPLEX_VARS[0] += 1
        data[v["name"]] = (tuple(vd) + (("tau",) if v["internal"] else ()), x)
    if any(v["internal"] for v in case["vars"]):
        coords["tau"] = [0.1, 0.2, 0.3] if case.get("tau_n", 3) == 3 else (np.arange(case["tau_n"]) * 0.5).tolist()
    return xr.Dataset(data, coords=coords)


def null_mask(arr, method):
    a = np.asarray(arr)
    if a.dtype.kind not in "fc":
        if a.dtype.kind in "iub":
            return np.zeros(a.shape, dtype=bool)
        return np.array([refmodel.is_null_leaf(x) for x in a.ravel().tolist()], dtype=bool).reshape(a.shape)
    if method == "isnull":
        return np.isnan(a)
    return ~np.isfinite(a)


def _labs(ds, d):
    """The labels of coordinate d as the values a user would name them by (numpy times stay numpy times)."""
    v = ds[d].values
    return list(v) if v.dtype.kind in "mM" else v.tolist()


def brute_missing(ds, setting, method):
    """Independent definition: every variable entirely null at `setting` (absent coordinate => missing)."""
    for d, v in setting.items():
        if d not in ds.coords:
            return True
        if not any(probe._cv(v) == probe._cv(x) for x in _labs(ds, d)):
            return True
    for name in ds.data_vars:
        da = ds[name]
        arr = da.values
        idx = []
        for d in da.dims:
            if d in setting:
                labels = [probe._cv(x) for x in _labs(ds, d)]
                idx.append(labels.index(probe._cv(setting[d])))
            else:
                idx.append(slice(None))
        sub = arr[tuple(idx)]
        if not null_mask(sub, method).all():
            return False
    return True


def run_case(ctx, case):
    import xyzpy
    import xarray as xr
    if case["type"] == "loop":
        return run_loop(ctx, case)
    if case.get("large"):
        ctx.count("datasets_of_a_hundred_thousand_and_more_numbers")
    c0_ = COMPLEX_VARS[0]
    ds = build(case)
    ctx.count("complex_valued_variables", COMPLEX_VARS[0] - c0_)
    before = ds.copy(deep=True)
    method = case["method"]
    dims = list(case["dims"])
    has_t = "tau" in ds.dims
    ignore = ["tau"] if has_t else []
    if case["ignore_param"] and len(dims) > 1:
        ignore.append(dims[-1])
    spelled = {"list": list(ignore), "set": set(ignore), "tuple": tuple(ignore),
               "str": ignore[0] if len(ignore) == 1 else list(ignore)}[case["ignore_as"]] if ignore else None
    sig = {"api": "find_missing_cases", "method": method, "pattern": case["pattern"], "ignore_param": case["ignore_param"]}
    obj = ds
    if case["da"]:
        obj = ds[case["vars"][0]["name"]]
    try:
        with quiet():
            if isinstance(obj, xr.Dataset):
                pb = {}
                if case["dseed"] % 3 == 1:
                    pb["show_progbar"] = True        # the progress display changes nothing about what is reported
                    ctx.count("searches_with_a_progress_bar")
                fn_args, missing = xyzpy.find_missing_cases(ds, ignore_dims=spelled, method=method, **pb)
                fds = ds
            else:
                # the search over ONE variable (a DataArray): its own dimensions, its own nulls
                fds = obj.to_dataset(name="only")
                ign_ = [d for d in ignore if d in obj.dims]
                fn_args, missing = xyzpy.find_missing_cases(obj, ignore_dims=ign_ or None, method=method)
                ctx.count("searches_over_a_dataarray")
    except Exception as e:
        ctx.violation(case, "find_missing_cases raised %r" % (e,), dict(sig, **exc_sig(e)))
        ctx.observe(case, nontrivial=False)
        return
    bad = []
    nmiss = nloc = 0
    if fn_args is not None:
        want_args = [d for d in fds.dims if d not in ignore]
        if sorted(fn_args) != sorted(want_args):
            bad.append("searched dimensions %s, expected %s (ignore_dims=%r)" % (list(fn_args), want_args, spelled))
        else:
            grid = list(itertools.product(*[_labs(fds, a) for a in fn_args]))
            want = [loc for loc in grid if brute_missing(fds, dict(zip(fn_args, loc)), method)]
            nloc, nmiss = len(grid), len(want)
            got = [tuple(x.item() if (isinstance(x, np.generic) and x.dtype.kind not in "mM") else x for x in m) for m in missing]
            wk = [tuple(map(probe._cv, w)) for w in want]
            gk = [tuple(map(probe._cv, g)) for g in got]
            if len(set(gk)) != len(gk):
                bad.append("duplicates among the reported locations")
            elif set(gk) != set(wk):
                bad.append("reported %d locations, %d have no data; wrongly reported: %s; not reported: %s" % (
                    len(gk), len(wk), [g for g, k in zip(got, gk) if k not in set(wk)][:3], [w for w, k in zip(want, wk) if k not in set(gk)][:3]))
            elif gk != wk:
                bad.append("reported locations are not in grid order")
            ctx.count("locations_judged", nloc)
            if 0 < nmiss < nloc:
                ctx.count("datasets_with_mixed_locations")
    # is_case_missing on Dataset / DataArray for a sample of (possibly partial / absent) locations
    rng = ctx.rng("locs", case["dseed"])
    for _ in range(6):
        sub = rng.sample(dims, rng.randint(1, len(dims)))
        if case["da"]:
            sub = [d for d in sub if d in obj.dims] or [obj.dims[0]] if obj.dims else []
            sub = [d for d in sub if d != "tau"]
            if not sub:
                continue
        setting = {}
        for d in sub:
            vals = _labs(ds, d)
            setting[d] = rng.choice(vals)
            if rng.random() < 0.15:
                setting[d] = _absent(rng, vals, case["coordt"][d])
                ctx.count("absent_coordinate_requests")
        if rng.random() < 0.2:
            setting["new_param"] = 7          # a parameter the data has no dimension for: nothing can be there yet
            ctx.count("absent_coordinate_requests")
        tgt = obj if not case["da"] else obj
        tds = ds if not case["da"] else obj.to_dataset(name="only")
        try:
            with quiet():
                got = xyzpy.is_case_missing(tgt, setting, method=method)
        except Exception as e:
            bad.append("is_case_missing(%s) raised %r" % (setting, e))
            continue
        exp = brute_missing(tds, setting, method)
        ctx.count("locations_judged")
        if bool(got) != exp:
            bad.append("is_case_missing(%s)=%r but the location %s" % (setting, got, "has no data" if exp else "has data"))
    # parse_into_cases: combos x cases, filtered by the dataset
    if not case["da"]:
        k = rng.randint(0, len(dims))
        cdims, gdims = dims[:k], dims[k:]
        combos = {}
        for d in gdims:
            vals = _labs(ds, d)
            combos[d] = rng.sample(vals, rng.randint(1, len(vals)))
            if rng.random() < 0.3:
                combos[d] = combos[d] + [_absent(rng, vals, case["coordt"][d])]
                ctx.count("absent_coordinate_requests")
        if rng.random() < 0.2:
            combos["new_param"] = [7, 8]       # extending the grid along a parameter the dataset does not know yet
            ctx.count("absent_coordinate_requests")
        cs = None
        if cdims:
            allc = list(itertools.product(*[_labs(ds, d) for d in cdims]))
            cs = [dict(zip(cdims, c)) for c in rng.sample(allc, rng.randint(1, min(4, len(allc))))]
        try:
            with quiet():
                combos_arg = combos or None
                if combos and case["dseed"] % 4 == 2:
                    # the values of a requested grid arrive as one-shot iterables (documented: "iterable")
                    combos_arg = {k2: iter(list(v)) if i_ % 2 else (x_ for x_ in list(v)) for i_, (k2, v) in enumerate(combos.items())}
                    ctx.count("requested_grids_given_as_one_shot_iterables")
                got = xyzpy.parse_into_cases(combos=combos_arg, cases=cs, ds=ds, method=method)
            req = [{**c, **dict(zip(combos, v))} for c in (cs or [{}]) for v in itertools.product(*combos.values())]
            want = [r for r in req if brute_missing(ds, r, method)]
            ctx.count("locations_judged", len(req))
            gk = [tuple(sorted((k2, probe._cv(v)) for k2, v in g.items())) for g in got]
            wk = [tuple(sorted((k2, probe._cv(v)) for k2, v in w.items())) for w in want]
            if gk != wk:
                bad.append("parse_into_cases returned %d of %d requested locations, %d have no data (or an absent coordinate); first difference: %s" % (
                    len(gk), len(req), len(wk), next(((g, w) for g, w in zip(gk + [None], wk + [None]) if g != w), None)))
        except Exception as e:
            bad.append("parse_into_cases raised %r" % (e,))
    if not ds.identical(before):
        bad.append("the dataset was modified by the search")
    if not bad and not case["da"] and case["dseed"] % 3 == 0 and all(ds[v].dtype.kind in "fc" for v in ds.data_vars):
        # DOING IT AGAIN on the same object: the holes found are filled IN PLACE (ds[v].values[...] = ...), then the same
        # search runs again on the same Dataset object - it reports what is missing NOW (nothing)
        try:
            ds2 = ds.copy(deep=True)
            with quiet():
                xyzpy.find_missing_cases(ds2, ignore_dims=spelled, method=method)
                for v in ds2.data_vars:
                    arr = ds2[v].values
                    arr[~np.isfinite(arr)] = 0.25
                fa2, miss2 = xyzpy.find_missing_cases(ds2, ignore_dims=spelled, method=method)
            ctx.count("searches_repeated_on_the_same_dataset_after_filling_its_holes_in_place")
            # (variables over an EMPTY internal axis hold nothing to fill: if every variable is one, all stays missing)
            if len(miss2) and any(ds2[v].size for v in ds2.data_vars):
                bad.append("second search on the same Dataset object, after every hole had been filled in place, still reports %d locations missing: %s" % (
                    len(miss2), list(miss2)[:3]))
        except Exception as e:
            bad.append("the repeated search raised %r" % (e,))
    for msg in bad[:2]:
        ctx.violation(case, msg, dict(sig, oracle=msg.split("(")[0].split(" ")[0]))
    if case.get("tau_n") == 0 and any(not v["internal"] for v in case["vars"]):
        ctx.count("datasets_with_a_variable_over_an_empty_internal_axis_next_to_one_with_data")
    ctx.observe(case, key=(case["dims"], case["sizes"], [(v["dims"], v["internal"], v["dtype"]) for v in case["vars"]], case.get("tau_n"),
                           case["pattern"], case["p"], case["inf"], method, case["ignore_param"], case["da"], case["dseed"]),
                nontrivial=0 < nmiss < nloc,
                info={"locations": nloc, "missing": nmiss, "searched": list(fn_args) if fn_args else None})


def run_loop(ctx, case):
    """find -> harvest exactly the reported cases -> find again (nothing)."""
    import xyzpy
    rng = ctx.rng("loop", case["dseed"])
    kind = case["kind"]
    tmp = ctx.mkdtemp("loop")
    sig = {"api": "find-harvest-find", "kind": kind.split(":")[0]}
    loglist = []
    fn = probe.Probe(kind, loglist=loglist, name="lp")
    multi = kind.startswith("multi")
    runner = xyzpy.Runner(fn, ["y", "z"] if multi else "y", var_dims={"z": "tau"} if multi else None,
                          var_coords={"tau": [0.1, 0.2, 0.3]} if multi else None)
    dn = os.path.join(tmp, "loopdata") if case["engine"] else None
    h = xyzpy.Harvester(runner, data_name=dn, engine=case["engine"])
    avals, bvals = [1, 2, 3, 4][:rng.randint(2, 4)], ["u", "v", "w"][:rng.randint(1, 3)]
    allp = [(a, b) for a in avals for b in bvals]
    pts = rng.sample(allp, min(case["npts"], len(allp)))
    bad = []
    try:
        with quiet():
            h.harvest_cases([{"a": a, "b": b} for a, b in pts], verbosity=0)
            fn_args, missing = xyzpy.find_missing_cases(h.full_ds, ignore_dims="tau" if multi else None)
            n1 = len(loglist)
            have = {(probe._cv(a), probe._cv(b)) for a, b in pts}
            grid = {(probe._cv(a), probe._cv(b)) for a in h.full_ds["a"].values.tolist() for b in h.full_ds["b"].values.tolist()}
            got = {tuple(probe._cv(m[list(fn_args).index(k)]) for k in ("a", "b")) for m in missing}
            if got != grid - have:
                bad.append("first search reported %d locations, %d of the %d grid locations were never harvested" % (
                    len(got), len(grid - have), len(grid)))
            if missing:
                h.harvest_cases(missing, fn_args=fn_args, verbosity=0)
            if len(loglist) - n1 != len(missing):
                bad.append("harvesting the %d reported cases evaluated %d settings" % (len(missing), len(loglist) - n1))
            fn_args2, missing2 = xyzpy.find_missing_cases(h.full_ds, ignore_dims={"tau"} if multi else None)
            if len(missing2):
                bad.append("after harvesting exactly the reported cases %d locations are still reported missing: %s" % (
                    len(missing2), list(missing2)[:3]))
            if h.full_ds is not None and h._full_ds is not None:
                h._full_ds.close()
        ctx.count("find_harvest_find_loops")
    except Exception as e:
        bad.append("loop raised %r" % (e,))
        sig.update(exc_sig(e))
    for msg in bad[:1]:
        ctx.violation(case, msg, dict(sig, oracle="loop"))
    ctx.rmtree(tmp)
    ctx.observe(case, key=("loop", case["dseed"]), nontrivial=True,
                info={"harvested_first": len(pts), "reported_missing": len(missing) if "missing" in dir() else None})
