"""C18 -- infiniplot draws each data slice once, correctly styled and correctly placed.

Events: the Line2D / PolyCollection / ErrorbarContainer / QuadMesh artists of every Axes of
the returned (fig, axs), the panel title texts, the line styles; the dataset before and
after.  y values are unique random floats, so every drawn line names its slice.
Oracle: per panel (row_i, col_j) the multiset of drawn (x, y) arrays == the slices that have
any data, each once (NaNs kept, or removed with join_across_missing); equal mapped
coordinate => equal style value, different => different while distinct defaults remain;
explicit orders respected; empty coordinates dropped; aggregate lines = nan-aware
median/mean, bands/bars = the requested quantile/std/stderr range; histogram mode =
np.histogram density/counts at the bin centres; heat map = (aggregated) z on the (x, y)
mesh; input untouched.
"""
import itertools

import numpy as np

from ..common import quiet, exc_sig

PID = "C18"
LEVEL = "exploration"
TECHNIQUE = ("runtime monitoring of drawn artists: every line / band / bar / mesh of the returned axes is matched back to the data "
             "slice it shows (unique values) and its style and panel are compared with an independent model of the mapping")
RULE = ("seeded datasets (x + 1-4 further dims of size 1-3, random dim order, NaN patterns incl. all-NaN slices and all-NaN "
        "coordinates, +-inf values as data in line mode) x injective assignment of up to 4 dims to {color, hue, marker, markersize, markeredgecolor, linewidth, "
        "linestyle, row, col} incl. two properties on one dim, fused dims and explicit *_order x (coordinate or a data variable with holes of its own, linked by xlink) x join_across_missing x aggregate "
        "(median/mean/max; quantile/std/stderr ranges; band/bars) x histogram mode (bins None/int/edges, density/counts) x heat-map "
        "mode (palette on/off, aggregation, also a plain two-dimensional z(x, y)); aggregate figures against an x that is a data variable (xlink); dimension names of several characters; heat maps under a non-default rcParams pcolor.shading, line figures under a property cycle cycling line styles; numpy integers as the number of bins; distinct by (shape, mapping, options); non-trivial when >= 2 lines or a mesh is drawn")
RULE += '; one line / histogram dataset in seven holds a slice whose non-missing values are all exactly zero (signed zeros)'
ASSUMPTIONS = [
    "matplotlib backend (Agg); artists are inspected, pixels are not",
    "in heat-map mode without a palette the colours come from xyzpy's own to_colors (trusted); values are judged when a palette is given, "
    "masking and placement always",
    "'different while distinct default styles remain': judged for <= 15 markers, <= 6 line styles, and any number of sizes/widths/colours",
]
SHARDS = {"quick": 8, "thorough": 16}
MIN_REACH = {
    "line_figures_with_x_as_a_data_variable": {"quick": 20, "thorough": 300},
    "figures_judged": {"quick": 250, "thorough": 4000},
    "lines_matched": {"quick": 1500, "thorough": 20000},
    "style_pairs_compared": {"quick": 1200, "thorough": 15000},
    "aggregates_compared": {"quick": 100, "thorough": 1500},
    "aggregate_figures_with_x_as_a_data_variable": {"quick": 15, "thorough": 250},
    "heat_maps_drawn_under_a_non_default_mesh_shading_setting": {"quick": 8, "thorough": 120},
    "line_figures_drawn_under_a_style_cycling_line_styles": {"quick": 50, "thorough": 700},
    "histograms_whose_number_of_bins_is_a_numpy_integer": {"quick": 8, "thorough": 120},
    "histograms_compared": {"quick": 120, "thorough": 1200},
    "heatmap_cells_compared": {"quick": 300, "thorough": 5000},
    "slices_holding_infinite_values": {"quick": 30, "thorough": 500},
    "slices_whose_values_are_all_exactly_zero": {"quick": 10, "thorough": 150},
    "figures_drawn_on_axes_given_by_the_caller": {"quick": 30, "thorough": 500},
}
TIME_BUDGET = {"quick": 500, "thorough": 3400}
PROPS = ["color", "hue", "marker", "markersize", "markeredgecolor", "linewidth", "linestyle", "row", "col"]
DIMS = ["a", "seed", "c", "rep"]      # (names of one and of several characters)
MODES = ["lines", "lines", "lines", "lines", "aggregate", "aggregate", "hist", "heatmap"]


def cases(ctx):
    rng = ctx.rng("cases")
    for i in range(ctx.pick(900, 9000)):
        mode = MODES[i % len(MODES)]
        nd = rng.randint(1, 4)
        if mode == "heatmap" and rng.random() < 0.3:
            nd = 0          # a plain two-dimensional z(x, y): nothing to map, nothing to aggregate
        dims = rng.sample(DIMS, nd)
        sizes = {d: rng.randint(1, 3) for d in dims}
        c = {"mode": mode, "dims": dims, "sizes": sizes, "nx": rng.randint(2, 6), "dseed": rng.randint(0, 10 ** 9),
             "nan": rng.choice(["none", "some", "some", "slice", "coord", "mixed"]), "ctype": {d: rng.choice(["int", "str", "float"]) for d in dims},
             "perm": rng.randint(0, 999)}
        # mapping: injective assignment of some dims to properties (+ optionally a second property on the same dim)
        avail = list(PROPS)
        if mode == "heatmap":
            avail = ["row", "col"]
        rng.shuffle(avail)
        k = rng.randint(0, min(nd, 4 if mode != "heatmap" else 2))
        mdims = rng.sample(dims, k)
        mapping = {}
        for d in mdims:
            mapping[avail.pop()] = d
        if mdims and mode == "lines" and rng.random() < 0.25 and avail:
            p2 = next((p for p in avail if p not in ("row", "col", "hue")), None)
            if p2:
                mapping[p2] = rng.choice(mdims)
        if mode == "lines" and rng.random() < 0.15 and len(dims) >= 2 and "color" not in mapping and "hue" not in mapping:
            fd = rng.sample(dims, 2)
            if not any(v in fd for v in mapping.values()):
                mapping["color"] = fd           # fused dimension
        if "hue" in mapping and "color" not in mapping:
            pass                                   # hue alone acts as colour
        c["mapping"] = mapping
        nprops = {}
        for p, d in mapping.items():
            nprops[str(d)] = nprops.get(str(d), 0) + 1
        # (two properties on one dimension are outside the "injective" quantifier: kept for the equal-coordinate =>
        #  equal-style check, but never combined with an explicit order)
        c["orders"] = {p: (rng.random() < 0.3 and nprops[str(d)] == 1) for p, d in mapping.items()}
        c["join"] = rng.random() < 0.4
        c["agg_method"] = rng.choice(["median", "mean", "max"])
        c["agg_range"] = rng.choice([0.5, 0.9, "std", "stderr", 0.0])
        c["err_style"] = rng.choice([None, "band", "bars"])
        c["agg_true"] = rng.random() < 0.5
        c["bins"] = rng.choice([None, 4, 7, "edges"])
        c["density"] = rng.random() < 0.6
        c["palette"] = rng.choice(["viridis", "magma", None])
        c["xvar"] = (mode == "lines" and rng.random() < 0.3) or (mode == "aggregate" and c["dseed"] % 3 == 1)
        yield c


def _coord(n, typ, rng):
    if typ == "int":
        return (np.arange(n) * 3 + 1)[rng.permutation(n)].tolist()
    if typ == "str":
        return ["k%d" % i for i in rng.permutation(n)]
    return np.round(np.sort(rng.choice(np.arange(1, 40), n, replace=False) * 0.25), 3).tolist()


def build(case):
    import xarray as xr
    rng = np.random.default_rng(case["dseed"])
    dims = list(case["dims"])
    coords = {d: _coord(case["sizes"][d], case["ctype"][d], rng) for d in dims}
    nx = case["nx"]
    if case["mode"] == "heatmap":
        coords["x"] = np.round(1.0 + 0.5 * np.arange(nx), 3).tolist()
        coords["yy"] = np.round(2.0 + 0.25 * np.arange(max(2, nx - 1)), 3).tolist()
        if case["dseed"] % 2:
            # unevenly spaced mesh coordinates (a logarithmic sweep, hand-picked values)
            coords["x"] = np.round(1.0 + np.cumsum(rng.uniform(0.1, 2.0, nx)), 3).tolist()
            coords["yy"] = np.round(2.0 * 1.7 ** np.arange(max(2, nx - 1)), 3).tolist()
        alld = dims + ["yy", "x"]
    else:
        coords["x"] = np.round(1.0 + 0.5 * np.arange(nx), 3).tolist()
        alld = dims + ["x"]
    prm = np.random.default_rng(case["perm"]).permutation(len(alld))
    alld = [alld[i] for i in prm]
    shape = tuple(len(coords[d]) for d in alld)
    y = rng.normal(size=shape)
    pat = case["nan"]
    if pat in ("some", "mixed"):
        y[rng.random(shape) < 0.15] = np.nan
    if pat in ("slice", "mixed") and dims:
        idx = [slice(None)] * len(alld)
        for d in dims:
            idx[alld.index(d)] = int(rng.integers(0, case["sizes"][d]))
        y[tuple(idx)] = np.nan                    # one whole line is empty
    if pat in ("coord", "mixed") and dims:
        d = dims[int(rng.integers(0, len(dims)))]
        if case["sizes"][d] > 1:
            idx = [slice(None)] * len(alld)
            idx[alld.index(d)] = int(rng.integers(0, case["sizes"][d]))
            y[tuple(idx)] = np.nan                # one whole coordinate of a dimension is empty
    if not np.isfinite(y).any() or (dims and pat in ("slice", "coord", "mixed") and np.isfinite(y).sum() < 2):
        y = rng.normal(size=shape)          # an entirely empty dataset has nothing to draw
    if case["mode"] == "lines" and case["dseed"] % 6 == 2 and case["dseed"] % 5 != 0:
        # +-inf are DATA (a divergence), not missing values: some points, and (with mapped dimensions) one slice whose
        # only non-NaN values are infinite
        fin = np.argwhere(np.isfinite(y))
        for k in rng.choice(len(fin), size=min(len(fin), max(1, len(fin) // 8)), replace=False):
            y[tuple(fin[k])] = np.inf if rng.random() < 0.5 else -np.inf
        if dims and y.size > y.shape[alld.index("x")] and rng.random() < 0.5:
            idx = [slice(None)] * len(alld)
            for d in dims:
                idx[alld.index(d)] = int(rng.integers(0, case["sizes"][d]))
            sl = y[tuple(idx)]
            sl[~np.isnan(sl)] = np.inf
            if np.isnan(sl).all():
                sl[0] = -np.inf
            y[tuple(idx)] = sl
    if case["mode"] in ("lines", "hist") and dims and case["dseed"] % 7 == 3:
        # one slice whose values are all EXACTLY zero (a vanishing order parameter, zero counts; signed zeros): data like any other
        idx = [slice(None)] * len(alld)
        for d in dims:
            idx[alld.index(d)] = int(rng.integers(0, case["sizes"][d]))
        sl = y[tuple(idx)]
        sl[~np.isnan(sl)] = 0.0
        if np.isnan(sl).all():
            sl[:] = 0.0
        sl[::2] *= -1.0
        y[tuple(idx)] = sl
    data = {"y": (tuple(alld), y)}
    if case["mode"] == "hist":
        v_ = y * 2.0
        if case["dseed"] % 3 == 0:
            v_ = np.round(v_)          # quantised data (counts, integers): samples lie exactly ON bin edges
        data["v"] = (tuple(alld), v_)
    if case["mode"] == "lines" and case["dseed"] % 5 == 0 and not case.get("xvar"):
        data["e"] = (tuple(alld), np.abs(rng.normal(size=shape)) * 0.1)
    if case["dseed"] % 4 == 1 and case["mode"] in ("lines", "hist", "aggregate"):
        # the dataset also holds an unrelated variable on a further dimension that has a coordinate (a spectrum stored
        # next to the energies): it is none of the plot's business
        coords["kx"] = [0.5, 1.5, 2.5, 3.5]
        sub = alld[:max(1, len(alld) - 1)]
        data["spectrum"] = (tuple(sub) + ("kx",), rng.normal(size=tuple(len(coords[d]) for d in sub) + (4,)))
    if case.get("xvar"):
        # x is a data VARIABLE (e.g. a measured time), linked along the dimension 'x'; it has holes of its own, at other
        # places than y's, and (when that does not empty a whole mapped coordinate) one slice without any x at all
        tx = np.cumsum(rng.uniform(0.1, 1.0, size=shape), axis=alld.index("x"))
        tx[rng.random(shape) < 0.15] = np.nan
        if dims:
            idx = [slice(None)] * len(alld)
            for d in dims:
                idx[alld.index(d)] = int(rng.integers(0, case["sizes"][d]))
            keep = tx[tuple(idx)].copy()
            tx[tuple(idx)] = np.nan
            both = np.isfinite(y) & np.isfinite(tx)
            for d in dims:
                ax_other = tuple(k for k in range(len(alld)) if k != alld.index(d))
                if (np.isfinite(y).any(axis=ax_other) != both.any(axis=ax_other)).any():
                    tx[tuple(idx)] = keep      # (would empty a whole coordinate: what counts as empty then is not specified)
                    break
        data["tx"] = (tuple(alld), tx)
    return xr.Dataset(data, coords=coords)


def dash_of(line):
    p = getattr(line, "_unscaled_dash_pattern", None)
    if p is None:
        return line.get_linestyle()
    off, seq = p
    return (float(off), tuple(seq) if seq is not None else None)


def style_of(line):
    import matplotlib.colors as mc
    return {
        "color": tuple(np.round(mc.to_rgba(line.get_color()), 6)),
        "marker": str(line.get_marker()),
        "markersize": round(float(line.get_markersize()), 6),
        "markeredgecolor": tuple(np.round(mc.to_rgba(line.get_markeredgecolor()), 6)),
        "linewidth": round(float(line.get_linewidth()), 6),
        "linestyle": dash_of(line),
    }


def arr_key(a, approx=False):
    """Identity of a drawn array: exact for raw slices (unique random floats), rounded for computed
    ones (aggregates / histograms: summation order may differ in the last bits)."""
    if approx:
        return tuple("nan" if np.isnan(v) else "%.9g" % float(v) for v in np.asarray(a, dtype=float).ravel())
    return tuple("nan" if np.isnan(v) else repr(float(v)) for v in np.asarray(a, dtype=float).ravel())


def run_case(ctx, case):
    import xyzpy
    import matplotlib.pyplot as plt
    mode = case["mode"]
    ds = build(case)
    before = ds.copy(deep=True)
    rng = ctx.rng("orders", case["dseed"])
    mapping = {p: (tuple(d) if isinstance(d, list) else d) for p, d in case["mapping"].items()}
    kw = {}
    order_of = {}
    for p, d in mapping.items():
        kw[p] = list(d) if isinstance(d, tuple) else d
        if case["orders"].get(p) and not isinstance(d, tuple):
            vals = ds[d].values.tolist()
            # an explicit order: a permutation, possibly leaving one value out
            o = list(vals)
            rng.shuffle(o)
            if len(o) > 2 and rng.random() < 0.4:
                o = o[:-1]
            if d in order_of:
                o = order_of[d]
            order_of[d] = o
            kw[p + "_order"] = o
    sig = {"api": "infiniplot", "mode": mode}
    bad = []
    plt.close("all")
    yname = "y"
    # degenerate requests (an explicit order that selects only empty data) have nothing to draw: skipped
    pre = ds[["v" if mode == "hist" else "y"]]
    for d_, o_ in order_of.items():
        pre = pre.sel({d_: o_})
    _vals = np.asarray(pre["v" if mode == "hist" else "y"].values, dtype=float)
    _fin = _vals[np.isfinite(_vals)]
    if not len(_fin) or (mode == "hist" and case["bins"] != "edges" and len(np.unique(_fin)) < 2):
        # (automatic bins of a single distinct value have zero width: no density is defined)
        ctx.count("degenerate_skipped")
        ctx.observe(case, nontrivial=False)
        return
    given_axs = None
    if mode in ("lines", "heatmap") and case["dseed"] % 6 == 4:
        # the caller supplies the grid of axes: "at least as many rows and columns as there are mapped dimensions" - here
        # one spare column (and as many rows as the row dimension has coordinates, empty ones included)
        rd_, cd_ = mapping.get("row"), mapping.get("col")
        _, given_axs = plt.subplots(ds.sizes[rd_] if rd_ else 1, (ds.sizes[cd_] if cd_ else 1) + 1, squeeze=False)
        kw["axs"] = given_axs
        ctx.count("figures_drawn_on_axes_given_by_the_caller")
    import contextlib
    import matplotlib
    ambient = contextlib.nullcontext()
    if mode == "heatmap" and case["dseed"] % 4 == 2:
        # the calling program has set matplotlib's default mesh shading for its own pcolormesh calls
        ambient = matplotlib.rc_context({"pcolor.shading": ["gouraud", "flat", "nearest"][case["dseed"] % 3]})
        ctx.count("heat_maps_drawn_under_a_non_default_mesh_shading_setting")
    elif mode in ("lines", "aggregate") and case["dseed"] % 5 == 3:
        # ... or a property cycle that also cycles line styles and widths (a black-and-white style sheet)
        from cycler import cycler
        ambient = matplotlib.rc_context({"axes.prop_cycle": cycler(color=["k", "0.4", "0.7"]) + cycler(linestyle=["-", "--", ":"]) + cycler(linewidth=[1.0, 2.0, 3.0])})
        ctx.count("line_figures_drawn_under_a_style_cycling_line_styles")
    try:
        with quiet(), ambient:
            if mode == "lines":
                if case["join"]:
                    kw["join_across_missing"] = True
                if "e" in ds:
                    kw["err"] = "e"
                    kw["err_style"] = case["err_style"] or "bars"
                if case.get("xvar"):
                    fig, axs = xyzpy.infiniplot(ds, "tx", "y", xlink="x", show_and_close=False, **kw)
                    ctx.count("line_figures_with_x_as_a_data_variable")
                else:
                    fig, axs = xyzpy.infiniplot(ds, "x", "y", show_and_close=False, **kw)
            elif mode == "aggregate":
                unm = [d for d in case["dims"] if d not in _flat(mapping.values())]
                if not unm:
                    ctx.observe(case, nontrivial=False)
                    return
                agg = True if case["agg_true"] else (unm if len(unm) > 1 and rng.random() < 0.5 else unm[0])
                kw.update(aggregate=agg, aggregate_method=case["agg_method"], aggregate_err_range=case["agg_range"])
                if case["err_style"]:
                    kw["err_style"] = case["err_style"]
                if case.get("xvar"):
                    # the aggregated sweep against an x that is itself a (measured, aggregated alike) data variable
                    fig, axs = xyzpy.infiniplot(ds, "tx", "y", xlink="x", show_and_close=False, **kw)
                    ctx.count("aggregate_figures_with_x_as_a_data_variable")
                else:
                    fig, axs = xyzpy.infiniplot(ds, "x", "y", show_and_close=False, **kw)
            elif mode == "hist":
                if case["bins"] == "edges":
                    kw["bins"] = [-6, -2, -1, -0.5, 0, 0.5, 1, 2, 6]
                elif case["bins"] is not None:
                    kw["bins"] = case["bins"]
                    if case["dseed"] % 3 == 1:
                        # the number of bins as a numpy integer (computed from the data: np.sqrt(n).astype(int), len(...) of an array)
                        kw["bins"] = np.int64(case["bins"])
                        ctx.count("histograms_whose_number_of_bins_is_a_numpy_integer")
                kw["bins_density"] = case["density"]
                fig, axs = xyzpy.infiniplot(ds, "v", show_and_close=False, **kw)
            else:
                kw["palette"] = case["palette"]
                if case["agg_true"]:
                    kw["aggregate"] = True
                    kw["aggregate_method"] = case["agg_method"]
                fig, axs = xyzpy.infiniplot(ds, "x", "yy", "y", show_and_close=False, **kw)
    except Exception as e:
        keys = sorted(kw)
        ctx.violation(case, "infiniplot(%s, %s) raised %r" % (mode, keys, e), dict(sig, oracle="no-exception", opts=",".join(keys)[:80], **exc_sig(e)))
        plt.close("all")
        ctx.observe(case, nontrivial=False)
        return
    ctx.count("figures_judged")
    if not ds.identical(before):
        bad.append("the dataset passed in was modified by plotting")

    # ------------------------------------------------------------------ model of the mapping
    mapped_dims = set(_flat(mapping.values()))
    dims = list(case["dims"])
    # apply explicit orders, then drop coordinates that are entirely empty (per mapped dim, in property order)
    target = "v" if mode == "hist" else "y"
    # n.b. a coordinate counts as empty only if every variable the plot uses (y and the error variable) is empty there
    work = ds[[target] + (["e"] if (mode == "lines" and "e" in ds) else []) + (["tx"] if "tx" in ds else [])]
    # (property by property: an explicit order selects along its dimension, then that dimension's empty coordinates go.
    #  Whether a coordinate emptied only by a LATER property's order still gets an (empty) panel is not specified by the
    #  property; the sequence used here is the one under which every panel that has data exists)
    for p in ["hue", "color", "marker", "markersize", "markeredgecolor", "linestyle", "linewidth", "col", "row"]:
        d = mapping.get(p)
        if d is None or isinstance(d, tuple):
            continue
        if d in order_of:
            work = work.sel({d: order_of[d]})
        work = work.dropna(d, how="all")
    domain = {d: work[d].values.tolist() for d in dims}
    rowd, cold = mapping.get("row"), mapping.get("col")
    nrow = len(domain[rowd]) if rowd else 1
    ncol = len(domain[cold]) if cold else 1
    if given_axs is not None:
        if axs is not given_axs and not (np.shape(axs) == given_axs.shape and all(a is b for a, b in zip(np.ravel(axs), given_axs.ravel()))):
            bad.append("the axes returned are not the grid handed in")
        elif nrow > given_axs.shape[0] or ncol >= given_axs.shape[1]:
            bad.append("model error: the grid handed in is too small")
        else:
            axs = given_axs
            spare = [(i, j) for i in range(given_axs.shape[0]) for j in range(given_axs.shape[1]) if i >= nrow or j >= ncol]
            used = [(i, j) for (i, j) in spare if given_axs[i, j].lines or [c for c in given_axs[i, j].collections if type(c).__name__ == "QuadMesh"]]
            if used:
                bad.append("data was drawn into spare panels %s of the %s grid handed in (%d rows x %d columns are needed)" % (
                    used, given_axs.shape, nrow, ncol))
    elif axs.shape != (nrow, ncol):
        bad.append("axes grid %s, expected %s (rows over %r %s, cols over %r %s)" % (axs.shape, (nrow, ncol), rowd, domain.get(rowd), cold, domain.get(cold)))
    xs = np.asarray(work["x"].values, dtype=float) if mode != "hist" else None

    if not bad and mode in ("lines", "aggregate", "hist"):
        unmapped = [d for d in dims if d not in mapped_dims]
        agg_dims = []
        if mode == "aggregate":
            a = kw["aggregate"]
            agg_dims = unmapped if a is True else ([a] if isinstance(a, str) else list(a))
        if mode == "hist":
            agg_dims = unmapped
        line_dims = [d for d in dims if d not in agg_dims]
        seen_styles = {}      # (prop, dim) -> {coord: style value}
        for i in range(nrow):
            for j in range(ncol):
                ax = axs[i, j]
                caps = set()
                for cont in ax.containers:
                    for grp in cont.lines[1:]:
                        for a_ in (grp or ()):
                            caps.add(id(a_))
                lines = [l for l in ax.lines if id(l) not in caps]
                approx = mode in ("aggregate", "hist")
                # expected slices of this panel
                free = [d for d in line_dims if d not in (rowd, cold)]
                exp = {}
                optional = []
                for combo in itertools.product(*[domain[d] for d in free]):
                    loc = dict(zip(free, combo))
                    if rowd:
                        loc[rowd] = domain[rowd][i]
                    if cold:
                        loc[cold] = domain[cold][j]
                    sub = work.sel(loc)
                    if mode == "hist":
                        vals = np.asarray(sub["v"].values, dtype=float).ravel()
                        bins = _bins(case, work, kw)
                        yv, _ = np.histogram(vals[np.isfinite(vals)], bins=bins, density=case["density"])
                        yv = np.asarray(yv, dtype=float)
                        xv = 0.5 * (bins[1:] + bins[:-1])
                        if not np.isfinite(vals).any():
                            if not case["density"]:
                                optional.append(arr_key(np.zeros(len(bins) - 1), True))    # zero counts: true, may be drawn
                            continue
                    elif mode == "aggregate":
                        arr = np.asarray(sub["y"].transpose(*(agg_dims + ["x"])).values, dtype=float).reshape(-1, len(xs))
                        with np.errstate(all="ignore"):
                            import warnings
                            with warnings.catch_warnings():
                                warnings.simplefilter("ignore")
                                yv = {"median": np.nanmedian, "mean": np.nanmean, "max": np.nanmax}[case["agg_method"]](arr, axis=0)
                                xv = xs
                                if "tx" in work:
                                    arrx = np.asarray(sub["tx"].transpose(*(agg_dims + ["x"])).values, dtype=float).reshape(-1, len(xs))
                                    xv = {"median": np.nanmedian, "mean": np.nanmean, "max": np.nanmax}[case["agg_method"]](arrx, axis=0)
                    else:
                        yv = np.asarray(sub["y"].values, dtype=float)
                        xv = xs
                        if "tx" in work:
                            xv = np.asarray(sub["tx"].values, dtype=float)
                    m = ~np.isnan(yv) & ~np.isnan(xv)         # (missing = NaN; +-inf are data)
                    if np.isinf(yv).any():
                        ctx.count("slices_holding_infinite_values")
                    if not m.any():
                        continue
                    if (mode == "lines" and not np.any(yv[m])) or (mode == "hist" and not np.any(vals[np.isfinite(vals)])):
                        ctx.count("slices_whose_values_are_all_exactly_zero")
                    if (mode == "lines" and case["join"]):
                        xv, yv = xv[m], yv[m]
                    exp.setdefault(arr_key(yv, approx), []).append((loc, xv, yv, sub))
                got = {}
                for l in lines:
                    k_ = arr_key(l.get_ydata(), approx)
                    if k_ in optional and k_ not in exp:
                        optional.remove(k_)
                        continue
                    got.setdefault(k_, []).append(l)
                if {k: len(v) for k, v in got.items()} != {k: len(v) for k, v in exp.items()}:
                    extra = sum(max(0, len(v) - len(exp.get(k, ()))) for k, v in got.items())
                    miss = [e[0] for k, v in exp.items() for e in v[len(got.get(k, ())):]]
                    bad.append("panel (%d, %d) [%s]: %d lines drawn, %d slices have data; slices not drawn: %s; drawn lines that are no slice of this panel (or drawn twice): %d" % (
                        i, j, ", ".join("%s=%r" % (d, v) for d, v in (((rowd, domain[rowd][i]),) if rowd else ()) + (((cold, domain[cold][j]),) if cold else ())),
                        len(lines), sum(map(len, exp.values())), miss[:2], extra))
                    continue
                # unambiguous matches only (identical computed arrays cannot be told apart)
                exp = {k: v[0] for k, v in exp.items() if len(v) == 1}
                got = {k: v[0] for k, v in got.items() if k in exp}
                for k, l in got.items():
                    loc, xv, yv, sub = exp[k]
                    ctx.count("lines_matched")
                    xapprox = mode == "aggregate" and "tx" in work        # (an aggregated x: summation order may differ in the last bits)
                    if arr_key(l.get_xdata(), xapprox) != arr_key(xv, xapprox):
                        bad.append("line for %s has x data %s, expected %s" % (loc, np.asarray(l.get_xdata()).tolist()[:4], np.asarray(xv).tolist()[:4]))
                    st = style_of(l)
                    for p, d in mapping.items():
                        if p in ("row", "col"):
                            continue
                        prop = "color" if p == "hue" else p
                        coord = tuple(loc[x] for x in d) if isinstance(d, tuple) else loc[d]
                        if p == "color" and "hue" in mapping:
                            coord = (loc[mapping["hue"]], coord)      # colour = hue palette at intensity
                        if p == "hue" and "color" in mapping:
                            continue
                        seen_styles.setdefault((prop, str(d), p), {}).setdefault(repr(coord), set()).add(repr(st[prop]))
                    if mode == "hist":
                        ctx.count("histograms_compared")
                # aggregate: spread bands / bars
                if mode == "aggregate" and not bad:
                    _judge_spread(ctx, ax, exp, case, kw, agg_dims, xs, bad)
                if mode == "lines" and "e" in ds and not bad:
                    _judge_errs(ctx, ax, exp, ds, work, case, kw, xs, bad)
                # panel title names the panel's coordinates
                texts = " | ".join(t.get_text() for t in ax.texts)
                for dd, idx in ((rowd, i), (cold, j)):
                    if given_axs is not None:
                        break       # (axes handed in by the caller are not formatted or titled unless asked)
                    if dd and ("=%s" % (domain[dd][idx],)) not in texts:
                        bad.append("panel (%d, %d) is not titled with %s=%s (texts: %r)" % (i, j, dd, domain[dd][idx], texts))
        # styles: equal coordinate -> equal value; different -> different (while distinct defaults remain)
        limit = {"marker": 15, "linestyle": 6}
        for (prop, d, p), per_coord in seen_styles.items():
            vals = list(per_coord.values())
            ctx.count("style_pairs_compared", len(vals) * (len(vals) - 1) // 2 + len(vals))
            for coord, vs in per_coord.items():
                if len(vs) != 1:
                    bad.append("lines with %s=%s are drawn with different %s values %s" % (d, coord, prop, sorted(vs)[:3]))
            flat = [next(iter(v)) for v in vals if len(v) == 1]
            if len(per_coord) <= limit.get(prop, 10 ** 6) and len(set(flat)) != len(flat):
                bad.append("different coordinates of %s share the same %s value: %s" % (d, prop, {c: sorted(v) for c, v in per_coord.items()}))
        # explicit orders are respected: widths / sizes grow along the given order
        for p in ("linewidth", "markersize"):
            d = mapping.get(p)
            if d and not isinstance(d, tuple) and (p, str(d), p) in seen_styles and p + "s" not in kw:
                per = seen_styles[(p, str(d), p)]
                seq = [float(next(iter(per[repr(c)]))) for c in domain[d] if repr(c) in per and len(per[repr(c)]) == 1]
                present = [c for c in domain[d] if repr(c) in per]
                if len(present) == len(domain[d]) and len(seq) > 1 and sorted(seq) != seq:
                    bad.append("%s does not increase along the %s order %s: %s" % (p, d, domain[d], seq))

    if not bad and mode == "heatmap":
        unm = [d for d in dims if d not in mapped_dims]
        for i in range(nrow):
            for j in range(ncol):
                ax = axs[i, j]
                meshes = [c for c in ax.collections if type(c).__name__ == "QuadMesh"]
                if len(meshes) != 1:
                    bad.append("panel (%d, %d) has %d meshes" % (i, j, len(meshes)))
                    continue
                loc = {}
                if rowd:
                    loc[rowd] = domain[rowd][i]
                if cold:
                    loc[cold] = domain[cold][j]
                sub = work.sel(loc)["y"]
                if unm:
                    arr = np.asarray(sub.transpose(*(unm + ["yy", "x"])).values, dtype=float)
                    arr = arr.reshape((-1,) + arr.shape[-2:])
                    import warnings
                    with warnings.catch_warnings():
                        warnings.simplefilter("ignore")
                        meth = case["agg_method"] if case["agg_true"] else "median"
                        Z = {"median": np.nanmedian, "mean": np.nanmean, "max": np.nanmax}[meth](arr, axis=0)
                else:
                    Z = np.asarray(sub.transpose("yy", "x").values, dtype=float)
                mesh = meshes[0]
                coords_xy = np.asarray(mesh.get_coordinates(), dtype=float)
                xc = np.asarray(work["x"].values, dtype=float)
                yc = np.asarray(work["yy"].values, dtype=float)
                A = mesh.get_array()
                if case["palette"] is not None:
                    A = np.ma.masked_invalid(np.ma.asarray(A, dtype=float)).reshape(Z.shape)
                else:
                    A = np.asarray(A, dtype=float).reshape(Z.shape + (-1,))
                for a in range(Z.shape[0]):
                    for b in range(Z.shape[1]):
                        ctx.count("heatmap_cells_compared")
                        qx = [coords_xy[a, b, 0], coords_xy[a, b + 1, 0]]
                        qy = [coords_xy[a, b, 1], coords_xy[a + 1, b, 1]]
                        if not (min(qx) - 1e-9 <= xc[b] <= max(qx) + 1e-9 and min(qy) - 1e-9 <= yc[a] <= max(qy) + 1e-9):
                            bad.append("heat-map quad (%d, %d) does not contain its coordinate (x=%r, y=%r)" % (a, b, xc[b], yc[a]))
                            break
                        if case["palette"] is not None:
                            if np.isfinite(Z[a, b]):
                                if np.ma.is_masked(A[a, b]) or abs(float(A[a, b]) - Z[a, b]) > 1e-12 * max(1, abs(Z[a, b])):
                                    bad.append("heat-map cell (x=%r, y=%r) of panel (%d, %d) shows %r, the (aggregated) data is %r" % (xc[b], yc[a], i, j, A[a, b], Z[a, b]))
                                    break
                            elif not np.ma.is_masked(A[a, b]):
                                bad.append("heat-map cell (x=%r, y=%r) shows %r for missing data" % (xc[b], yc[a], A[a, b]))
                                break
                        else:
                            grey = np.allclose(A[a, b][:4], (0.5, 0.5, 0.5, 0.5))
                            if np.isfinite(Z[a, b]) == grey:
                                bad.append("heat-map cell (x=%r, y=%r): %s" % (xc[b], yc[a], "data shown as missing" if grey else "missing data shown as a value"))
                                break
                    if bad:
                        break
    plt.close("all")
    for msg in bad[:2]:
        ctx.violation(case, "%s: %s" % (mode, msg), dict(sig, oracle=" ".join(msg.split(" ")[:3]), opts=",".join(sorted(kw))[:80]))
    ctx.observe(case, key=(mode, case["dims"], case["sizes"], sorted((p, str(d)) for p, d in mapping.items()), case["orders"], case["join"], case["nan"],
                           case["agg_method"], case["agg_range"], case["err_style"], case["bins"], case["density"], case["palette"]),
                nontrivial=len(case["dims"]) >= 1,
                info={"axes": list(axs.shape), "mapping": {p: str(d) for p, d in mapping.items()}, "options": sorted(kw)})


def _flat(vals):
    out = []
    for v in vals:
        if isinstance(v, (tuple, list)):
            out.extend(v)
        else:
            out.append(v)
    return out


def _bins(case, work, kw):
    v = np.asarray(work["v"].values, dtype=float)
    v = v[np.isfinite(v)]
    b = kw.get("bins")
    if b is None or isinstance(b, (int, np.integer)):
        if b is None:
            unm_size = 1
            mapped = set(_flat(case["mapping"].values()))
            for d in work["v"].dims:
                if d not in mapped:
                    unm_size *= work.sizes[d]
            b = min(max(3, int(unm_size ** 0.5)), 50)
        return np.linspace(float(v.min()), float(v.max()), b + 1)
    return np.asarray(b, dtype=float)


def _verts(coll):
    out = set()
    for path in coll.get_paths():
        for x, y in np.asarray(path.vertices, dtype=float):
            out.add((round(x, 9), round(y, 9)))
    return out


def _judge_spread(ctx, ax, exp, case, kw, agg_dims, xs, bad):
    """Aggregate mode: every line has a band (or bars) spanning the requested range."""
    import warnings
    style = kw.get("err_style") or "band"
    bands = [c for c in ax.collections if "PolyCollection" in type(c).__name__]
    conts = list(ax.containers)
    allv = set()
    if style == "band":
        for b in bands:
            allv |= _verts(b)
    else:
        for c in conts:
            for lc in c.lines[2]:
                for seg in lc.get_segments():
                    for x, y in np.asarray(seg, dtype=float):
                        allv.add((round(x, 9), round(y, 9)))
    for k, (loc, xv, yv, sub) in exp.items():
        arr = np.asarray(sub["y"].transpose(*(agg_dims + ["x"])).values, dtype=float).reshape(-1, len(xs))
        r = case["agg_range"]
        with warnings.catch_warnings():
            warnings.simplefilter("ignore")
            if r == "std":
                mu, sd = np.nanmean(arr, axis=0), np.nanstd(arr, axis=0)
                lo, hi = mu - sd, mu + sd
            elif r == "stderr":
                mu, sd = np.nanmean(arr, axis=0), np.nanstd(arr, axis=0)
                n = np.isfinite(arr).sum(axis=0)
                lo, hi = mu - sd / np.sqrt(n), mu + sd / np.sqrt(n)
            else:
                r = min(max(0.0, r), 1.0)
                lo = np.nanquantile(arr, 0.5 - r / 2, axis=0)
                hi = np.nanquantile(arr, 0.5 + r / 2, axis=0)
        ctx.count("aggregates_compared")
        for xi, l_, h_, c_ in zip(xv, lo, hi, yv):
            if not (np.isfinite(l_) and np.isfinite(h_) and np.isfinite(c_) and np.isfinite(xi)):
                continue
            if style == "bars":
                l_, h_ = c_ - abs(c_ - l_), c_ + abs(h_ - c_)
            if (round(xi, 9), round(l_, 9)) not in allv or (round(xi, 9), round(h_, 9)) not in allv:
                bad.append("spread of the aggregated line %s at x=%r should span [%r, %r] (%s of %d samples); no %s vertex there" % (
                    loc, xi, l_, h_, case["agg_range"], arr.shape[0], style))
                return


def _judge_errs(ctx, ax, exp, ds, work, case, kw, xs, bad):
    style = kw.get("err_style")
    allv = set()
    if style == "band":
        for b in [c for c in ax.collections if "PolyCollection" in type(c).__name__]:
            allv |= _verts(b)
    else:
        for c in ax.containers:
            for lc in c.lines[2]:
                for seg in lc.get_segments():
                    for x, y in np.asarray(seg, dtype=float):
                        allv.add((round(x, 9), round(y, 9)))
    for k, (loc, xv, yv, sub) in exp.items():
        ev = np.asarray(ds["e"].sel(loc).values, dtype=float)
        yfull = np.asarray(sub["y"].values, dtype=float)
        m = np.isfinite(yfull)
        for xi, yi, ei in zip(xs[m] if case["join"] else xs, yfull[m] if case["join"] else yfull, ev[m] if case["join"] else ev):
            if not np.isfinite(yi):
                continue
            ctx.count("aggregates_compared")
            if (round(xi, 9), round(yi - ei, 9)) not in allv or (round(xi, 9), round(yi + ei, 9)) not in allv:
                bad.append("error %s of line %s at x=%r should span y -+ err = [%r, %r]" % (style, loc, xi, yi - ei, yi + ei))
                return
