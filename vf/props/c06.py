"""C06 -- a crop attached to a Runner, Harvester or Sampler reaps what a direct run gives.

Events: the object returned by Crop.reap() (in-process, after re-creating the Crop from
name+directory, or in a fresh interpreter), the farmer's last result, the data file of a
Harvester / Sampler; the same for a twin farmer that runs the same inputs directly.
Oracle: label-wise Dataset equality / row-multiset DataFrame equality between the two,
for memory and disk, and equal outcomes (both raise) on merge conflicts.
"""
import os
from collections import Counter

import numpy as np

from .. import gens, probe, refmodel, cropkit
from ..common import quiet, exc_sig

PID = "C06"
LEVEL = "exploration"
TECHNIQUE = ("runtime monitoring: differential execution of the real code - farmer-backed sow/grow/reap vs. the same "
             "farmer description run directly - with values additionally decoded against the probe encoding")
RULE = ("seeded runner descriptions (1-2 outputs, internal dims from var_coords or from a constant, constants, resources, "
        "attrs, Dataset-returning functions) x grids / case lists / cases x sub-grids (<= 30 settings) x farmer kind "
        "(Runner, Harvester with pre-existing overlapping data and each overwrite policy, Sampler) x to_df x shuffle x "
        "batching x reload of crop+farmer by name (in-process and in a fresh interpreter); a farmer constant changed between two sows of one Crop object; grows as MPI rank 0; sow-time constants as dict / pairs / one-shot zip; decorated functions leaving a trace of their own; crops sown anew behind a long-lived Crop object; distinct by description and "
        "options; non-trivial when >= 2 batches")
ASSUMPTIONS = [
    "Sampler twins draw the same cases because numpy's global RNG is seeded identically before each draw",
    "DataFrames are compared as multisets of rows (row order may legitimately differ between a shuffled crop and a direct run)",
]
SHARDS = {"quick": 8, "thorough": 16}
MIN_REACH = {
    "crops_sown_anew_whose_settings_file_kept_its_size_and_time_stamp": {"quick": 3, "thorough": 10},
    "another_session_wrote_between_sow_and_reap": {"quick": 2, "thorough": 40},
    "resown_after_a_farmer_constant_was_changed": {"quick": 6, "thorough": 80},
    "pipelines_compared": {"quick": 120, "thorough": 1200},
    "harvester_files_compared": {"quick": 15, "thorough": 300},
    "sampler_tables_compared": {"quick": 10, "thorough": 200},
    "fresh_process_steps": {"quick": 8, "thorough": 150},
    "conflicts_agreed": {"quick": 2, "thorough": 40},
    "resown_from_reloaded_crop": {"quick": 20, "thorough": 250},
    "crops_whose_function_was_assigned_through_the_crop": {"quick": 5, "thorough": 60},
    "farmer_crops_built_by_the_generic_constructor_with_shuffle": {"quick": 10, "thorough": 100},
    "farmer_crops_grown_as_mpi_rank_0": {"quick": 10, "thorough": 150},
    "sow_time_constants_given_as_pairs_or_a_one_shot_iterable": {"quick": 8, "thorough": 120},
    "farmer_crops_whose_function_is_a_decorated_one": {"quick": 10, "thorough": 150},
    "farmer_crops_reaped_without_sync": {"quick": 3, "thorough": 40},
    "farmer_crops_with_an_earlier_failed_result_write": {"quick": 10, "thorough": 100},
}
TIME_BUDGET = {"quick": 400, "thorough": 3400}
CASE_TIMEOUT = {"quick": 300, "thorough": 600}

T_VALS = [0.1, 0.2, 0.3]


def cases(ctx):
    rng = ctx.rng("cases")
    n = ctx.pick(160, 1600)
    nfresh = ctx.pick(5, 80)
    for i in range(n):
        farmer = ["runner", "harvester", "runner", "harvester", "sampler"][i % 5]
        descr = rng.choice(["y", "yz_coords", "yz_const", "dataset"]) if farmer != "sampler" else rng.choice(["y", "yy"])
        w = cropkit.gen_workload(rng, nmax=30, kinds=["float"])
        if w["mode"] != "grid":
            w["via"] = rng.choice(["sow_combos", "sow_cases"])
            w["case_spelling"] = rng.choice(["dict", "tuple"])
        w["constants"] = {}
        if farmer in ("runner", "harvester") and rng.random() < 0.35:
            # sow-time constants take precedence over the runner's stored ones, in the values and in the labelling
            w["constants"] = rng.choice([{"kc": 99}, {"extra_c": 7}, {"kc": "override", "k2": 0.5}])
        nset = gens.n_settings(w["combos"], w["cases"])
        c = {"farmer": farmer, "descr": descr, "w": w,
             "constants": rng.choice([{}, {"kc": 4}, {"kc": "s", "k2": 2.5}]),
             "resources": rng.choice([{}, {"res": 11}]), "attrs": rng.choice([{}, {"note": "hello"}]),
             "to_df": farmer == "runner" and descr in ("y",) and rng.random() < 0.4,
             "shuffle": rng.choice([False, False, True, 13]), "policy": rng.choice([None, None, True, False]),
             "pre": rng.random() < 0.75, "pre_version": rng.choice([0, 1, 1]),
             "reload": rng.random() < 0.6, "fresh": (i % 13 == 5) and farmer != "sampler",
             "engine": rng.choice(["h5netcdf", "joblib"]), "has_ext": rng.random() < 0.5,
             "n_samples": rng.randint(1, 9), "rseed": rng.randint(0, 10 ** 9), "idx": i,
             # "another session": the crop (and its farmer) is re-created by name and the work is sown AGAIN from it
             "resow_reloaded": rng.random() < 0.3,
             # a constant of the farmer is changed after the first sow and the crop is sown again with the same object
             "tweak_then_resow": rng.random() < 0.2,
             # the harvester already holds its dataset in memory when the crop is sown, and ANOTHER session writes more
             # points into the file between sow and reap
             "writer_between": rng.random() < 0.35}
        if c["fresh"]:
            c["to_df"] = False        # the fresh-process reaper uses Crop.reap(), which returns the Dataset
        r = rng.random()
        if r < 0.45:
            c["batchsize"] = rng.randint(1, nset + 1)
        elif r < 0.9:
            c["num_batches"] = rng.randint(1, nset + 2)
        yield c

    # a crop deleted and sown ANEW (another grid / another batching, a settings file of the same size and time stamp) while a
    # long-lived Crop object that had looked at the earlier crop is still in use
    for k in range(ctx.pick(4, 12)):
        yield {"stale_settings": ["grid", "batching"][k % 2], "k": k}


def _kind(descr):
    return {"y": "float", "yy": "multi:s,s", "yz_coords": "multi:s,a3", "yz_const": "multi:s,a3", "dataset": "dataset:3"}[descr]


def _make_runner(xyzpy, fn, case, version=None):
    d = case["descr"]
    constants = dict(case["constants"])
    resources = dict(case["resources"])
    if version is not None:
        resources["version"] = version
    kw = dict(constants=constants or None, resources=resources or None, attrs=dict(case["attrs"]) or None)
    if d == "y":
        return xyzpy.Runner(fn, "y", **kw)
    if d == "yy":
        return xyzpy.Runner(fn, ["y", "z"], **kw)
    if d == "yz_coords":
        return xyzpy.Runner(fn, ["y", "z"], var_dims={"z": ["t"]}, var_coords={"t": T_VALS}, **kw)
    if d == "yz_const":
        kw["constants"] = {**constants, "t": T_VALS}
        return xyzpy.Runner(fn, ["y", "z"], var_dims=([], ["t"]), **kw)
    return xyzpy.Runner(fn, None, **kw)


def _direct(farmer_obj, runner, w, **kw):
    combos = [(a, list(v)) for a, v in w["combos"]]
    if w["mode"] == "grid":
        return lambda: farmer_obj(gens.spell_combos(combos, "dict"), **kw)
    return None


def run_case(ctx, case):
    if case.get("stale_settings"):
        import xyzpy as _x
        tmp_ = ctx.mkdtemp("stale")
        try:
            with quiet():
                probs_, same_size_ = cropkit.stale_settings_scenario(_x, tmp_, case["stale_settings"], farmer=True)
        except Exception as e_:
            probs_, same_size_ = ["the scenario raised %r" % (e_,)], False
        ctx.count("crops_sown_anew_behind_a_long_lived_crop_object")
        if same_size_:
            ctx.count("crops_sown_anew_whose_settings_file_kept_its_size_and_time_stamp")
        for m_ in probs_[:2]:
            ctx.violation(case, m_, {"api": "long-lived Crop", "oracle": "looks-at-the-crop-that-is-there", "variant": case["stale_settings"]})
        ctx.observe(case, key=("stale", case["stale_settings"], case["k"]))
        ctx.rmtree(tmp_)
        return
    import xyzpy
    import xarray as xr
    w = case["w"]
    kind = _kind(case["descr"])
    tmp = ctx.mkdtemp("c6")
    name = "c6"
    farmer = case["farmer"]
    ext = {"h5netcdf": ".h5", "joblib": ".dmp"}[case["engine"]] if case["has_ext"] else ""
    sig = {"api": "farmer-crop", "farmer": farmer, "descr": case["descr"], "to_df": case["to_df"], "shuffle": bool(case["shuffle"]),
           "fresh": case["fresh"], "reload": case["reload"], "policy": str(case["policy"]), "form": w["mode"]}
    log1, log2 = os.path.join(tmp, "calls1.log"), os.path.join(tmp, "calls2.log")
    ctl1 = os.path.join(tmp, "ctl1.json")
    probe.write_ctl(ctl1)
    fn1 = cropkit.build_probe(kind, log1, ctl=ctl1, name="fprobe", by_value=case["fresh"])
    fn2 = probe.Probe(kind, logfile=log2, name="fprobe")
    decor_log = None
    if case["idx"] % 5 == 1 and not case["fresh"]:
        # the swept function is a functools.wraps-DECORATED one; the decorator leaves a line in a file of its own each time
        # it runs (the function underneath computes the same values silently): what is grown is the callable that was given
        import functools
        decor_log = os.path.join(tmp, "decorator.log")

        def _decorate(inner, path):
            @functools.wraps(inner)
            def fprobe(**kw):
                with open(path, "a") as f_:
                    f_.write("x\n")
                return inner(**kw)
            return fprobe
        fn1, fn2 = _decorate(fn1, decor_log), _decorate(fn2, os.path.join(tmp, "decorator2.log"))
        ctx.count("farmer_crops_whose_function_is_a_decorated_one")
    ver = 2 if farmer == "harvester" else None
    via_setter = case["idx"] % 6 == 3 and not case.get("writer_between") and farmer != "sampler"    # (a Sampler is also sampled directly here)
    if via_setter:
        # the farmer is built around an EARLIER version of the function; the one to grow is assigned to the crop (crop.fn = f)
        def earlier_version(**kw):
            return -12345.0
        r1 = _make_runner(xyzpy, earlier_version, case, ver)
        ctx.count("crops_whose_function_was_assigned_through_the_crop")
    else:
        r1 = _make_runner(xyzpy, fn1, case, ver)
    r2 = _make_runner(xyzpy, fn2, case, ver)
    combos = [(a, list(v)) for a, v in w["combos"]]
    cases_l = [dict(c) for c in w["cases"]] if w["cases"] else None

    ckw = {}
    if case.get("batchsize"):
        ckw["batchsize"] = case["batchsize"]
    if case.get("num_batches"):
        ckw["num_batches"] = case["num_batches"]

    def direct_run(runner_like, **kw):
        """The same inputs through the farmer's direct API."""
        if cases_l is None:
            return runner_like.run_combos(gens.spell_combos(combos, "dict"), verbosity=0, **kw) if hasattr(runner_like, "run_combos") \
                else runner_like.harvest_combos(gens.spell_combos(combos, "dict"), verbosity=0, **kw)
        sub = {a: list(v) for a, v in combos} if combos else None        # (the sub-grid as a mapping, as documented)
        extra = {"combos": sub} if sub else {}
        if hasattr(runner_like, "run_cases"):
            return runner_like.run_cases(cases_l, verbosity=0, **extra, **kw)
        return runner_like.harvest_cases(cases_l, verbosity=0, **extra, **kw)

    f1 = f2 = None
    bad = []
    err1 = err2 = None
    out1 = out2 = None
    try:
        with quiet():
            if farmer == "runner":
                f1, f2 = r1, r2
            elif farmer == "harvester":
                d1, d2 = os.path.join(tmp, "crop_side" + ext), os.path.join(tmp, "direct_side" + ext)
                f1 = xyzpy.Harvester(r1, data_name=d1, engine=case["engine"])
                f2 = xyzpy.Harvester(r2, data_name=d2, engine=case["engine"])
                if case["pre"]:
                    # identical pre-existing data on both sides (harvested directly, from an older 'version')
                    for f, fn in ((f1, fn1), (f2, fn2)):
                        pr = _make_runner(xyzpy, probe.Probe(kind, name="fprobe"), case, case["pre_version"] + 2 if case["pre_version"] else 2)
                        ph = xyzpy.Harvester(pr, data_name=f.data_name, engine=case["engine"])
                        if cases_l is None:
                            half = [(a, v[:max(1, len(v) // 2)]) for a, v in combos]
                            ph.harvest_combos(dict(half), verbosity=0)
                        else:
                            sub = {a: list(v) for a, v in combos} if combos else None
                            ph.harvest_cases(cases_l[:max(1, len(cases_l) // 2)], verbosity=0, **({"combos": sub} if sub else {}))
                        if ph._full_ds is not None:
                            ph._full_ds.close()
            else:
                s1p, s2p = os.path.join(tmp, "crop_side.pkl"), os.path.join(tmp, "direct_side.pkl")
                dc = {"a": [1, 2, 3, 5], "b": ["u", "v", "w"]}
                f1 = xyzpy.Sampler(r1, data_name=s1p, default_combos=dc)
                f2 = xyzpy.Sampler(r2, data_name=s2p, default_combos=dc)
                if case["pre"]:
                    for f in (f1, f2):
                        np.random.seed(case["rseed"] % 1000)
                        f.sample_combos(3, verbosity=0)

            wb = None
            if case.get("writer_between") and farmer == "harvester" and cases_l is None and combos and not case["to_df"]:
                a0, v0 = combos[0]
                new = [777, 778] if all(isinstance(x, (int, np.integer)) and not isinstance(x, bool) for x in v0) else \
                    [77.25, 78.5] if all(isinstance(x, (float, np.floating)) for x in v0) else \
                    ["zz8", "zz9"] if all(isinstance(x, str) for x in v0) else None
                if new is not None and not any(x in v0 for x in new):
                    wb = (a0, new)
                    for f in (f1, f2):
                        f.harvest_combos({**dict(gens.spell_combos(combos, "dict")), a0: [new[0]]}, verbosity=0)
            # ---------------- crop side ----------------
            ctor_shuffle = bool(case["shuffle"]) and case["idx"] % 2 == 1 and farmer != "sampler"
            if ctor_shuffle:
                # the generic constructor with the farmer and a shuffle setting; the sow call then names none (or None)
                crop = xyzpy.Crop(farmer=f1, name=name, parent_dir=tmp, shuffle=case["shuffle"], **ckw)
                ctx.count("farmer_crops_built_by_the_generic_constructor_with_shuffle")
            else:
                crop = f1.Crop(name=name, parent_dir=tmp, **ckw)
            if via_setter:
                crop.fn = fn1
            if case["shuffle"] and not ctor_shuffle:
                crop.shuffle = case["shuffle"]
            if farmer == "sampler":
                np.random.seed(case["rseed"] % (2 ** 32))
                crop.sow_samples(case["n_samples"], verbosity=0)
            else:
                shuffle_at_sow = case["shuffle"] if (w["mode"] == "grid" or w.get("via") == "sow_combos") and case["shuffle"] else None
                if ctor_shuffle:
                    shuffle_at_sow = None if case["idx"] % 4 == 1 else "keep"
                cas_ = ["dict", "zip", "pairs"][case["idx"] % 3]
                if w["constants"] and cas_ != "dict":
                    ctx.count("sow_time_constants_given_as_pairs_or_a_one_shot_iterable")
                cropkit.sow(crop, w, shuffle_at_sow=shuffle_at_sow, constants_as=cas_)
            if case.get("tweak_then_resow") and not case.get("resow_reloaded"):
                # the documented "tweak a constant and sow again" on the same Crop object; both sides get the new value
                for fobj in (f1, f2):
                    rr = fobj if isinstance(fobj, xyzpy.Runner) else fobj.runner
                    rr.constants = {**dict(rr._constants), "ktweak": 9 + case["rseed"] % 5}
                if farmer == "sampler":
                    np.random.seed(case["rseed"] % (2 ** 32))
                    crop.sow_samples(case["n_samples"], verbosity=0)
                else:
                    cropkit.sow(crop, w, shuffle_at_sow=shuffle_at_sow)
                ctx.count("resown_after_a_farmer_constant_was_changed")
            if case.get("resow_reloaded"):
                crop = xyzpy.Crop(name=name, parent_dir=tmp)        # farmer un-pickled from the settings file
                if case["shuffle"]:
                    crop.shuffle = case["shuffle"]
                if farmer == "sampler":
                    np.random.seed(case["rseed"] % (2 ** 32))
                    crop.sow_samples(case["n_samples"], verbosity=0)
                else:
                    cropkit.sow(crop, w, shuffle_at_sow=shuffle_at_sow)
                f1 = crop.farmer
                ctx.count("resown_from_reloaded_crop")
    except Exception as e:
        ctx.violation(case, "setting up / sowing raised %r" % (e,), dict(sig, step="sow", **exc_sig(e)))
        ctx.rmtree(tmp)
        ctx.observe(case, nontrivial=False)
        return
    B = len(cropkit.batch_files(tmp, name))
    if wb is not None:
        try:
            with quiet():
                for f, fnx in ((f1, fn1), (f2, fn2)):
                    other = xyzpy.Harvester(_make_runner(xyzpy, probe.Probe(kind, name="fprobe"), case, case.get("version")),
                                            data_name=f.data_name, engine=case["engine"])
                    other.harvest_combos({**dict(gens.spell_combos(combos, "dict")), wb[0]: [wb[1][1]]}, verbosity=0)
                    if other._full_ds is not None:
                        other._full_ds.close()
            ctx.count("another_session_wrote_between_sow_and_reap")
        except Exception as e:
            ctx.violation(case, "the other session's harvest between sow and reap raised %r" % (e,), dict(sig, step="writer-between", **exc_sig(e)))
            ctx.rmtree(tmp)
            ctx.observe(case, nontrivial=False)
            return

    reap_kw = {}
    if farmer == "harvester":
        reap_kw["overwrite"] = case["policy"]
    # a look at the results without merging them into the accumulated data (sync=False): same result, recorded as the
    # farmer's last one, and the data on disk stays as it is - as for the direct call with sync=False
    nosync = farmer in ("harvester", "sampler") and case["pre"] and not case["fresh"] and not case["to_df"] and case["idx"] % 3 == 2 \
        and not case.get("writer_between") and not (farmer == "harvester" and case["policy"] is None)
    # (with the default policy a direct un-synced harvest still checks the new data against the accumulated data and may
    #  refuse it; a reap without sync does not merge at all, so there is nothing to refuse: only the two deciding policies)
    dkw = {}
    tbl_before = None
    if nosync:
        reap_kw["sync"] = False
        if farmer == "harvester":
            dkw["sync"] = False
        else:
            # (sample_combos always syncs: the direct side is the ordinary run; on the crop side the table must stay as it was)
            with quiet():
                tbl_before = xyzpy.load_df(f1.data_name)
        ctx.count("farmer_crops_reaped_without_sync")
    try:
        with quiet():
            if case["fresh"]:
                r = cropkit.run_actor({"op": "grow_missing", "name": name, "parent": tmp}, tmp)
                ctx.count("fresh_process_steps")
                if r[0] != "ok":
                    raise RuntimeError("grow in a fresh process failed: %r" % (r,))
                if f1 is not r1 and getattr(f1, "_full_ds", None) is not None:
                    f1._full_ds.close()
                r = cropkit.run_actor({"op": "reap", "name": name, "parent": tmp, "kw": reap_kw}, tmp)
                ctx.count("fresh_process_steps")
                if r[0] == "exc":
                    err1 = RuntimeError("%s: %s" % (r[1], r[2]))
                    err1.remote_type = r[1]
                elif r[0] != "ok":
                    raise RuntimeError("reap in a fresh process died: %r" % (r,))
                else:
                    out1 = r[1]
            else:
                c2 = xyzpy.Crop(name=name, parent_dir=tmp) if case["reload"] else crop
                if case["idx"] % 4 == 1:
                    # an earlier attempt to grow the first batch failed while WRITING its result (a result that cannot be
                    # stored): whatever it left behind, the crop is then grown and reaped like any other
                    b1 = cropkit.read_pickle(cropkit.batch_files(tmp, name)[1])
                    probe.write_ctl(ctl1, unpicklable=[probe.canon(b1[0])])
                    try:
                        c2.grow(1)
                        bad.append("a grow whose result cannot be written did not raise")
                    except Exception:
                        ctx.count("farmer_crops_with_an_earlier_failed_result_write")
                    finally:
                        probe.write_ctl(ctl1)
                if case["idx"] % 5 == 2:
                    # the growing program is rank 0 of an MPI launch (mpiexec -n 1, an srun step): rank 0 is the rank that saves
                    mpi_var_ = ["PMI_RANK", "OMPI_COMM_WORLD_RANK"][case["idx"] % 2]
                    os.environ[mpi_var_] = "0"
                    try:
                        c2.grow_missing()
                    finally:
                        os.environ.pop(mpi_var_, None)
                    ctx.count("farmer_crops_grown_as_mpi_rank_0")
                else:
                    c2.grow_missing()
                c3 = xyzpy.Crop(name=name, parent_dir=tmp) if case["reload"] else crop
                try:
                    if case["to_df"]:
                        out1 = c3.reap_runner(c3.farmer, to_df=True)
                    else:
                        out1 = c3.reap(**reap_kw)
                except Exception as e:
                    err1 = e
                if err1 is None and not case["to_df"]:
                    last = c3.farmer.last_ds if farmer != "sampler" else c3.farmer.last_df
                    if last is not out1:
                        bad.append("the farmer's last result is not the reaped object")
    except Exception as e:
        ctx.violation(case, "grow/reap raised %r" % (e,), dict(sig, step="grow/reap", **exc_sig(e)))
        ctx.rmtree(tmp)
        ctx.observe(case, nontrivial=False)
        return

    # ---------------- direct side ----------------
    try:
        with quiet():
            if farmer == "runner":
                out2 = direct_run(f2, **({"to_df": True} if case["to_df"] else {}), **({"shuffle": case["shuffle"]} if case["shuffle"] else {}),
                                  **({"constants": dict(w["constants"])} if w["constants"] else {}))
            elif farmer == "harvester":
                try:
                    direct_run(f2, overwrite=case["policy"], **dkw, **({"constants": dict(w["constants"])} if w["constants"] else {}))
                    out2 = f2.last_ds
                except Exception as e:
                    err2 = e
            else:
                np.random.seed(case["rseed"] % (2 ** 32))
                out2 = f2.sample_combos(case["n_samples"], verbosity=0, **dkw)
    except Exception as e:
        for msg in bad[:2]:                 # (what was found so far is reported before the harness error surfaces)
            ctx.violation(case, msg, dict(sig, oracle=" ".join(msg.split(" ")[:3])))
        raise AssertionError("direct run of the twin farmer failed: %r" % (e,))

    ctx.count("pipelines_compared")
    # ---------------- oracle ----------------
    if (err1 is None) != (err2 is None):
        bad.append("crop reap %s but the direct run %s" % ("raised %r" % (err1,) if err1 else "succeeded",
                                                           "raised %r" % (err2,) if err2 else "succeeded"))
    elif err1 is not None:
        ctx.count("conflicts_agreed")
        if not os.path.isdir(cropkit.crop_dir(tmp, name)):
            bad.append("a failed reap-and-merge deleted the crop")
    else:
        if isinstance(out1, xr.DataArray):
            out1, out2 = out1.to_dataset(name="da"), out2.to_dataset(name="da")
        if isinstance(out1, xr.Dataset):
            d = refmodel.ds_equiv(out2, out1, check_attrs=True)
            if d:
                bad.append("reaped Dataset differs from the direct run's: " + d)
            else:
                for nm in out2.data_vars:
                    if tuple(out1[nm].dims[-1:]) != tuple(out2[nm].dims[-1:]) and out2[nm].ndim > 0 and "t" in out2[nm].dims:
                        bad.append("internal dimension of %s moved: %s vs %s" % (nm, out1[nm].dims, out2[nm].dims))
                for rname in case["resources"]:
                    if rname in out1.attrs or rname in out1.coords:
                        bad.append("resource %s recorded in the reaped dataset" % rname)
        else:
            cols = sorted(out2.columns)
            # (constants given at the sow call label the rows exactly as constants given to the direct run do)
            if sorted(out1.columns) != cols:
                bad.append("reaped DataFrame has columns %s, direct run %s" % (sorted(out1.columns), cols))
            elif Counter(refmodel.df_rows(out1, cols)) != Counter(refmodel.df_rows(out2, cols)):
                bad.append("reaped DataFrame rows differ from the direct run's")
    # values decode to the right call (not only equal to the twin)
    if err1 is None and isinstance(out1, xr.Dataset) and not bad and case["descr"] != "dataset":
        req = cropkit.requested_settings(w)
        extra = {**case["resources"], **case["constants"], **w["constants"]}
        if case.get("tweak_then_resow") and not case.get("resow_reloaded"):
            extra = {**case["resources"], **case["constants"], "ktweak": 9 + case["rseed"] % 5, **w["constants"]}
        if ver is not None:
            extra["version"] = ver
        if case["descr"] == "yz_const":
            extra["t"] = T_VALS
        for p in req[:40]:
            v = probe.make(kind, {**p, **extra})
            exp = {"y": v[0], "z": v[1]} if kind.startswith("multi") else {"y": v}
            for nm, ev in exp.items():
                got = out1.sel(p)[nm].values
                if refmodel.deep_eq(got if np.ndim(got) else got.item(), ev):
                    bad.append("reaped ds.sel(%s)[%s] is not the function's value there" % (p, nm))
                    break
    # on-disk data of harvesters / samplers
    if farmer == "harvester":
        try:
            with quiet():
                for f in (f1, f2):
                    if getattr(f, "_full_ds", None) is not None:
                        f._full_ds.close()
                a = xyzpy.load_ds(f1.data_name, engine=case["engine"]) if _exists(f1.data_name, ext, case["engine"]) else None
                b = xyzpy.load_ds(f2.data_name, engine=case["engine"]) if _exists(f2.data_name, ext, case["engine"]) else None
            ctx.count("harvester_files_compared")
            if (a is None) != (b is None):
                bad.append("data file exists on one side only (crop side: %s, direct side: %s)" % (a is not None, b is not None))
            elif a is not None:
                d = refmodel.ds_equiv(b, a, check_attrs=False)
                if d:
                    bad.append("harvester file after reap differs from the file after a direct harvest: " + d)
                if wb is not None and err1 is None:
                    # absolute, not only side against side: what the other session harvested must still be in the file
                    have = a[wb[0]].values.tolist() if wb[0] in a.coords else []
                    lost = [x for x in wb[1] if x not in have]
                    if lost:
                        bad.append("points harvested into the file by another session (%s=%s) are gone after the crop was reaped (file has %s=%s)" % (
                            wb[0], lost, wb[0], have))
        except Exception as e:
            bad.append("comparing harvester files raised %r" % (e,))
    if farmer == "sampler" and err1 is None:
        try:
            a, b = xyzpy.load_df(f1.data_name), xyzpy.load_df(f2.data_name)
            ctx.count("sampler_tables_compared")
            cols = sorted(b.columns)
            if tbl_before is not None:
                ca_ = sorted(a.columns)
                if ca_ != sorted(tbl_before.columns) or refmodel.df_rows(a, ca_) != refmodel.df_rows(tbl_before, ca_):
                    bad.append("a reap without sync changed the sampler's table on disk (%d rows, %d before)" % (len(a), len(tbl_before)))
            elif sorted(a.columns) != cols or Counter(refmodel.df_rows(a, cols)) != Counter(refmodel.df_rows(b, cols)):
                bad.append("sampler table after reap (%d rows) differs from the table after direct sampling (%d rows)" % (len(a), len(b)))
        except Exception as e:
            bad.append("comparing sampler tables raised %r" % (e,))
    if decor_log is not None and not via_setter and not os.path.exists(decor_log):
        bad.insert(0, "the decorated function given to the farmer was never called by the crop (its decorator left no trace): something else was grown")
    for msg in bad[:2]:
        ctx.violation(case, msg, dict(sig, oracle=" ".join(msg.split(" ")[:3])))
    ctx.rmtree(tmp)
    ctx.observe(case, key=(case["idx"], farmer, case["descr"], case["to_df"], case["shuffle"], case["policy"], case["reload"], case["fresh"],
                           case.get("batchsize"), case.get("num_batches"), w["mode"]),
                nontrivial=B >= 2,
                info={"batches": B, "farmer": farmer, "descr": case["descr"], "both_raised": err1 is not None,
                      "result": type(out1).__name__})


def _exists(name, ext, engine):
    from xyzpy.manage import auto_add_extension
    return os.path.exists(auto_add_extension(name, engine))
