"""C03 -- labelled outputs name every number correctly (Dataset and DataFrame).

Events: probe call log; the returned Dataset / DataFrame; Runner.last_ds.
Oracle: dims/coords/per-variable dimension order; ds.sel(point)[var] equals the encoded
output of exactly that call for EVERY point (un-requested points all-null); constants are
coordinates iff they name a dimension else attrs; resources are recorded nowhere; extra
attrs kept.  DataFrame: one row per logged call, each row's outputs decode to that row's
own arguments.
"""
import random
import concurrent.futures
from collections import Counter

import numpy as np

from .. import gens, probe, refmodel, executors
from ..common import quiet, exc_sig

PID = "C03"
LEVEL = "exploration"
TECHNIQUE = ("runtime monitoring: every labelled point of every returned Dataset/DataFrame is decoded back to "
             "the call that produced it (injective probe values) and compared with a reference model of the labelling")
RULE = ("seeded grids/case sets (<= 48 settings) x 1-3 outputs (scalar, 1-d, 2-d; float/int/bool/str) or "
        "Dataset/DataArray/dict results x every spelling of var_names/var_dims/var_coords x constants that are / are "
        "not internal dimensions x resources x attrs x entry point (combo_runner_to_ds, case_runner_to_ds, *_to_df, "
        "Runner.run_combos/run_cases, label()) x shuffle / executor options; labelled returns whose own coordinate depends on the arguments; dict cases with keys in varying order; argument names read off plain / keyword-only / decorated functions; the caller's case dicts compared after the call; distinct by (entry, shapes, output "
        "spec, spellings, options); non-trivial when >= 2 settings ran")
RULE += '; internal axes of exactly one entry or none at all (per-case axis sizes), labelled by var_coords, by a constant, or not at all'
ASSUMPTIONS = [
    "a function returning a DataArray with var_names=None yields a DataArray from xyzpy; it is judged as the one-variable Dataset of that name",
    "dimension names are distinct from output names (the tuple spelling of var_dims is ambiguous otherwise)",
]
SHARDS = {"quick": 6, "thorough": 16}
MIN_REACH = {
    "points_selected": {"quick": 2500, "thorough": 60000},
    "sweeps_with_an_empty_internal_axis_named_by_a_constant": {"quick": 4, "thorough": 60},
    "sweeps_of_a_thousand_and_more_settings": {"quick": 3, "thorough": 8},
    "positional_cases_named_by_the_function_signature": {"quick": 10, "thorough": 200},
    "df_rows_checked": {"quick": 400, "thorough": 5000},
    "calls_logged": {"quick": 3000, "thorough": 30000},
    "second_runs_on_same_runner": {"quick": 15, "thorough": 300},
    "varying_coordinate_labels_selected": {"quick": 300, "thorough": 5000},
    "positional_cases_named_by_stored_fn_args": {"quick": 10, "thorough": 200},
    "caller_mappings_compared": {"quick": 1500, "thorough": 30000},
    "sweeps_whose_array_dtype_depends_on_the_arguments": {"quick": 40, "thorough": 600},
}
TIME_BUDGET = {"quick": 400, "thorough": 3400}

DIMSIZE = {"t": 3, "w": 2}
OUT_SPECS = [(), (), ("t",), ("w",), ("t", "w"), ("w", "t")]
SCALAR_TYPES = ["s", "s", "s", "i", "b", "t"]
ENTRIES_DS = ["combo_to_ds", "case_to_ds", "runner_combos", "runner_cases", "label_combos", "label_cases"]
ENTRIES_DF = ["combo_to_df", "case_to_df", "runner_cases_df", "runner_combos_df"]


def _gen(rng, entry):
    c = {"entry": entry}
    is_df = entry.endswith("_df")
    use_cases = "case" in entry
    if use_cases:
        names, cs = gens.gen_cases(rng, nargs=(1, 3), ncases=(1, 6))
        sub = []
        if rng.random() < 0.35:
            free = [a for a in gens.ARG_POOL if a not in names]
            sub = gens.gen_combos(rng, nargs=(1, 1), nvals=(1, 3), names=rng.sample(free, 1))
        c.update(names=names, cases=cs, sub=sub, combos=None,
                 case_spelling=rng.choice(["dict", "dict", "tuple"]))
    else:
        c.update(combos=gens.gen_combos(rng, nargs=(1, 4), nvals=(1, 4), max_settings=48), names=None, cases=None,
                 sub=None, combo_spelling=rng.choice(["dict", "tuple", "list"]))
    swept = (c["names"] + [a for a, _ in c["sub"]]) if use_cases else [a for a, _ in c["combos"]]

    xobj = (not is_df) and rng.random() < 0.2
    if xobj:
        c["xobj"] = rng.choice(["dataset:3", "dataset:2", "dataarray:2", "dict:3", "datasetnc:3", "dataarraync:2", "datasetnc:2"])
        c["outputs"] = None
    else:
        c["xobj"] = None
        nout = rng.randint(1, 3)
        outs = []
        for j in range(nout):
            dims = () if is_df else rng.choice(OUT_SPECS)
            typ = rng.choice(SCALAR_TYPES) if not dims else "s"
            outs.append({"name": ["y", "Ex", "out_2", "sz"][j] if rng.random() < 0.8 else "v%d" % j,
                         "dims": list(dims), "type": typ,
                         # an array output whose dtype depends on the arguments (real for some settings, complex for others)
                         "vary_dtype": bool(dims) and rng.random() < 0.2})
        c["outputs"] = outs
        c["var_names_spelling"] = rng.choice(["str", "tuple", "list"]) if nout == 1 else rng.choice(["tuple", "list"])
        c["var_dims_spelling"] = rng.choice(["dict", "dict_tuplevals", "onetoone", "items", "grouped", "str"])
        c["dim_coords"] = {d: rng.choice(["var_coords", "constant", "none"]) for d in DIMSIZE}
        if any("w" in o["dims"] for o in outs) and rng.random() < 0.3:
            # DEGENERATE internal axis: 'w' has exactly one entry, or none at all (no frequencies requested) - still a dimension,
            # still labelled by whatever names it
            c["wsize"] = rng.choice([0, 1])
            if c["wsize"] == 0:
                for o in outs:
                    if o["dims"] == ["w", "t"]:
                        o["dims"] = ["t", "w"]       # (a nested list with an empty LEADING axis has no second axis)
    excl = swept + list(DIMSIZE)
    c["constants"] = gens.gen_constants(rng, 2, exclude=excl)
    c["run_constants"] = {}
    if entry.startswith(("runner", "label")) and rng.random() < 0.4:
        # per-run constants take precedence over stored ones
        c["run_constants"] = gens.gen_constants(rng, 2, exclude=excl)
    c["resources"] = {}
    if rng.random() < 0.5:
        c["resources"] = {"res_big": rng.randint(0, 99)}
        if rng.random() < 0.3:
            c["resources"]["res2"] = "tok%d" % rng.randint(0, 9)
    c["attrs"] = {}
    if rng.random() < 0.5:
        c["attrs"] = {"note": "n%d" % rng.randint(0, 99)}
        if rng.random() < 0.4:
            c["attrs"]["version"] = rng.randint(1, 5)
    c["shuffle"] = gens.gen_shuffle(rng)
    c["exec"] = rng.choice(["none", "none", "none", "fake_submit", "fake_apply", "threadpool"])
    c["perm_seed"] = rng.randint(0, 10 ** 9)
    return c


def cases(ctx):
    rng = ctx.rng("cases")
    n = ctx.pick(700, 16000)
    for i in range(n):
        pool = ENTRIES_DF if i % 4 == 3 else ENTRIES_DS
        yield _gen(rng, pool[(i // 4) % len(pool)] if i % 4 != 3 else pool[(i // 4) % len(pool)])
    # functions returning labelled data whose OWN coordinate depends on the arguments (a frequency axis scaled by a
    # parameter...): every number must still be found under the labels its run gave it
    for i in range(ctx.pick(60, 900)):
        c = _gen(rng, ["combo_to_ds", "case_to_ds", "runner_combos", "runner_cases", "label_combos"][i % 5])
        c["varying"] = rng.choice(["datasetvc:3", "datasetvc:2", "dataarrayvc:3"])
        yield c
    # sweeps of a few hundred settings through the executor paths (labels and rows must still pair with their own numbers)
    for i in range(ctx.pick(6, 40)):
        c = _gen(rng, ["combo_to_ds", "combo_to_df", "runner_combos", "runner_combos_df"][i % 4])
        while c["xobj"]:
            c = _gen(rng, c["entry"])
        c["combos"] = [["a", list(range(17 + i % 4))], ["b", [0.5 * j for j in range(16)]]]
        c["exec"] = ["threadpool", "fake_submit", "fake_apply"][i % 3]
        c["big"] = True
        yield c
    # sweeps of a thousand and more settings (1023, 1763, 1101: no multiples of a round chunk) run sequentially, in order
    # and shuffled: long runs are where progress reporting / chunking shortcuts live
    for i in range(ctx.pick(4, 12)):
        c = _gen(rng, ["combo_to_ds", "combo_to_df", "runner_combos", "runner_combos_df"][i % 4])
        while c["xobj"]:
            c = _gen(rng, c["entry"])
        na, nb = [(33, 31), (41, 43), (1101, 1)][i % 3]
        c["combos"] = [["a", list(range(na))], ["b", [0.5 * j for j in range(nb)]]]
        c["shuffle"] = [False, True, 11][i % 3] if i % 2 else [True, False, 5][i % 3]
        c["long"] = True
        yield c
    # to_df x shuffle on purpose (row/result pairing under a permutation)
    for i in range(ctx.pick(40, 400)):
        c = _gen(rng, ENTRIES_DF[i % len(ENTRIES_DF)])
        c["shuffle"] = rng.choice([True, rng.randint(2, 9999)])
        yield c


def _spell_var_dims(rng_seed, outs, how):
    """All accepted spellings of var_dims for the same meaning."""
    named = {o["name"]: tuple(o["dims"]) for o in outs}
    nonempty = {k: v for k, v in named.items() if v}
    if not nonempty:
        return None if rng_seed % 2 else {}
    if how == "str":
        if len(outs) == 1 and len(outs[0]["dims"]) == 1:
            return outs[0]["dims"][0]
        how = "dict"
    if how == "onetoone":
        # list of dims per output, in var_names order; single dims may be bare strings
        return tuple((v[0] if len(v) == 1 and rng_seed % 3 == 0 else list(v)) for v in named.values())
    if how == "items":
        return tuple((k, v) for k, v in nonempty.items())
    if how == "grouped":
        groups = {}
        for k, v in nonempty.items():
            groups.setdefault(v, []).append(k)
        return {(tuple(ks) if len(ks) > 1 else ks[0]): v for v, ks in groups.items()}
    if how == "dict_tuplevals":
        return {k: tuple(v) for k, v in named.items()}
    return {k: (v[0] if len(v) == 1 else list(v)) for k, v in nonempty.items()}


def run_varying(ctx, case):
    """Labelled returns with argument-dependent internal coordinates: judged label-wise."""
    import xyzpy
    entry = case["entry"]
    kind = case["varying"]
    use_cases = "case" in entry
    loglist = []
    fn = probe.Probe(kind, loglist=loglist)
    sig = {"api": entry, "xobj": "varying-coords", "kind": kind.split(":")[0]}
    if use_cases:
        names = list(case["names"])
        cs = [dict(c) for c in case["cases"]]
        subg = [(a, list(v)) for a, v in (case["sub"] or [])]
        requested = [{**c, **sp} for c in cs for sp in (list(refmodel.grid_points(subg)) if subg else [{}])]
        combos_arg = gens.spell_combos(subg, "dict") if subg else None
    else:
        combos = [(a, list(v)) for a, v in case["combos"]]
        requested = list(refmodel.grid_points(combos))
    opts = {"verbosity": 0}
    if case["shuffle"] is not False:
        opts["shuffle"] = case["shuffle"]
    try:
        with quiet():
            if entry == "combo_to_ds":
                ds = xyzpy.combo_runner_to_ds(fn, gens.spell_combos(combos, case["combo_spelling"]), var_names=None, **opts)
            elif entry == "case_to_ds":
                ds = xyzpy.case_runner_to_ds(fn, None, [dict(reversed(list(c.items()))) if i_ % 2 else c for i_, c in enumerate(cs)],
                                             var_names=None, combos=combos_arg, **opts)
            elif entry == "runner_combos":
                ds = xyzpy.Runner(fn, var_names=None).run_combos(gens.spell_combos(combos, case["combo_spelling"]), **opts)
            elif entry == "runner_cases":
                ds = xyzpy.Runner(fn, var_names=None).run_cases(cs, **({"combos": {a: list(v) for a, v in subg}} if subg else {}), **opts)
            else:
                ds = xyzpy.label(var_names=None)(fn).run_combos(gens.spell_combos(combos, case["combo_spelling"]), **opts)
    except Exception as e:
        ctx.violation(case, "%s raised %r for a function returning data with argument-dependent coordinates" % (entry, e),
                      dict(sig, oracle="no-exception", **exc_sig(e)))
        ctx.observe(case, nontrivial=False)
        return
    import xarray as xr
    if isinstance(ds, xr.DataArray):
        ds = ds.to_dataset(name=ds.name or "y")
    bad = None
    nsel = 0
    for p in requested:
        v = probe.make(kind, p)
        own = v["t"].values.tolist()
        try:
            at = ds.sel(p)
            for j, lab in enumerate(own):
                got = at["y"].sel(t=lab).values.item()
                nsel += 1
                if refmodel.deep_eq(got, float(v.values[j] if kind.startswith("dataarray") else v["y"].values[j])):
                    bad = "ds.sel(%s, t=%r)['y'] = %r is not the number the function returned under that label (%r)" % (
                        p, lab, got, float(v.values[j] if kind.startswith("dataarray") else v["y"].values[j]))
                    break
            if bad:
                break
            for lab in ds["t"].values.tolist():
                if lab not in own and not refmodel.is_null_leaf(at["y"].sel(t=lab).values.item()):
                    bad = "ds.sel(%s, t=%r)['y'] holds data although that run returned nothing under this label" % (p, lab)
                    break
            if not kind.startswith("dataarray") and refmodel.deep_eq(at["x"].values.item(), float(v["x"])):
                bad = "ds.sel(%s)['x'] is not what the function returned" % (p,)
        except Exception as e:
            bad = "selecting %s by label failed: %r" % (p, e)
        if bad:
            break
    ctx.count("varying_coordinate_labels_selected", nsel)
    ctx.count("calls_logged", len(loglist))
    if bad:
        ctx.violation(case, bad, dict(sig, oracle="ds-labelling"))
    ctx.observe(case, key=("varying", entry, kind, len(requested), bool(case["shuffle"]), case.get("perm_seed")),
                nontrivial=len(requested) >= 2, info={"t": ds["t"].values.tolist() if "t" in ds.coords else None})


def run_case(ctx, case):
    import xyzpy
    DS_ = dict(DIMSIZE, **({"w": case["wsize"]} if case.get("wsize") is not None else {}))
    if case.get("varying"):
        return run_varying(ctx, case)
    entry = case["entry"]
    is_df = entry.endswith("_df")
    use_cases = "case" in entry
    rs = case["perm_seed"]
    if case.get("long"):
        ctx.count("sweeps_of_a_thousand_and_more_settings")

    # ------------------------------------------------------------------ inputs
    if use_cases:
        names = list(case["names"])
        cs = [dict(c) for c in case["cases"]]
        sub = [(a, list(v)) for a, v in (case["sub"] or [])]
        swept = names + [a for a, _ in sub]
        axes = [(a, refmodel.sorted_union(c[a] for c in cs)) for a in names] + sub
        sub_points = list(refmodel.grid_points(sub)) if sub else [{}]
        requested = [{**c, **sp} for c in cs for sp in sub_points]
    else:
        combos = [(a, list(v)) for a, v in case["combos"]]
        swept = [a for a, _ in combos]
        axes = combos
        requested = list(refmodel.grid_points(combos))
    req_set = {tuple(probe._cv(p[a]) for a in swept) for p in requested}

    outs = case["outputs"]
    if case["xobj"]:
        kind = case["xobj"]
        var_names = None
        var_dims = None
        var_coords = None
        nt = int(kind.split(":")[1])
        out_vars = {"y": ("t",)} if kind.startswith("dataarray") else {"x": (), "y": ("t",)}
        dim_values = {"t": [10.0 * i for i in range(nt)]}
        dimsize = {"t": nt}
        const_dims = {}
        if "nc:" in kind:
            # the function's data has no coordinate for 't': a constant naming the dimension supplies it
            dim_values = {"t": [round(1.5 + i, 2) for i in range(nt)]}
            const_dims = {"t": dim_values["t"]}
    else:
        def spec(o):
            if not o["dims"]:
                return o["type"]
            return ("c" if o.get("vary_dtype") else "a") + "x".join(str(DS_[d]) for d in o["dims"])
        if len(outs) == 1:
            o = outs[0]
            kind = ({"s": "float", "i": "int", "b": "bool", "t": "str"}[o["type"]] if not o["dims"]
                    else ("carray:" if o.get("vary_dtype") else "array:") + "x".join(str(DS_[d]) for d in o["dims"]))
        else:
            kind = "multi:" + ",".join(spec(o) for o in outs)
        if any(o.get("vary_dtype") for o in outs):
            ctx.count("sweeps_whose_array_dtype_depends_on_the_arguments")
        vn = [o["name"] for o in outs]
        var_names = vn[0] if case["var_names_spelling"] == "str" else (
            tuple(vn) if case["var_names_spelling"] == "tuple" else list(vn))
        var_dims = _spell_var_dims(rs, outs, case["var_dims_spelling"])
        out_vars = {o["name"]: tuple(o["dims"]) for o in outs}
        used = sorted({d for o in outs for d in o["dims"]})
        dim_values, var_coords, const_dims = {}, {}, {}
        for d in used:
            vals = [round(0.1 * (i + 1), 3) for i in range(DS_[d])] if d == "t" else ["p%d" % i for i in range(DS_[d])]
            how = case["dim_coords"][d]
            if how == "var_coords":
                var_coords[d] = vals
                dim_values[d] = vals
            elif how == "constant":
                const_dims[d] = vals
                dim_values[d] = vals
        dimsize = DS_
        if not var_coords:
            var_coords = None if rs % 2 else {}

    stored_constants = {**case["constants"], **const_dims}
    if case.get("wsize") is not None:
        ctx.count("sweeps_with_an_internal_axis_of_one_or_no_entries")
        ctx.count("sweeps_with_an_empty_internal_axis_named_by_a_constant", 1 if case["wsize"] == 0 and "w" in const_dims else 0)
    run_constants = dict(case["run_constants"])
    eff_constants = {**stored_constants, **run_constants}
    resources = dict(case["resources"])
    attrs = dict(case["attrs"])
    full_kwargs_extra = {**resources, **eff_constants}

    loglist = []
    fn = probe.Probe(kind, loglist=loglist, name="labelled_probe")

    opts = {"verbosity": 0}
    if case["shuffle"] is not False:
        opts["shuffle"] = case["shuffle"]
    pool = None
    if case["exec"] == "fake_submit":
        opts["executor"] = executors.PermutedSubmitExecutor(perm_seed=rs)
    elif case["exec"] == "fake_apply":
        opts["executor"] = executors.PermutedApplyAsyncView(perm_seed=rs)
    elif case["exec"] == "threadpool":
        pool = concurrent.futures.ThreadPoolExecutor(3)
        opts["executor"] = pool

    fn_args = None
    if use_cases:
        if case["case_spelling"] == "tuple":
            cases_arg = [tuple(c[a] for a in names) for c in cs]
            fn_args = tuple(names)
        else:
            # dict cases may list their keys in any order (the first case fixes the axis order)
            krng = random.Random(rs)
            cases_arg = []
            for i_, c in enumerate(cs):
                ks = list(c)
                if i_ > 0:
                    krng.shuffle(ks)
                cases_arg.append({k: c[k] for k in ks})
            fn_args = None if rs % 2 else tuple(names)
        combos_arg = gens.spell_combos(sub, "dict") if sub else None
        allnames_ = list(names) + list(full_kwargs_extra)
        if (case["case_spelling"] == "tuple" and len(names) >= 2 and rs % 3 != 0 and not sub and not run_constants
                and all(isinstance(a, str) and a.isidentifier() for a in allnames_) and len(set(allnames_)) == len(allnames_)):
            # the names of the positional cases are NOT given: they are read off the function - a plain def, one whose last
            # case argument (and all after it) is keyword-only, or a functools.wraps-decorated one
            fn = probe.make_fn(allnames_, kind=kind, loglist=loglist, name="labelled_probe",
                               kwonly=(len(allnames_) - len(names) + 1) if rs % 2 else 0, wrapped=rs % 4 >= 2)
            fn_args = None
            ctx.count("positional_cases_named_by_the_function_signature")
    else:
        combos_arg = gens.spell_combos(combos, case["combo_spelling"])

    descr = dict(var_dims=var_dims, var_coords=var_coords, constants=stored_constants or None,
                 resources=resources or None, attrs=attrs or None)

    import copy as _copy
    given_before = _copy.deepcopy({"attrs": attrs, "constants": stored_constants, "run_constants": run_constants, "resources": resources})
    case_dicts_before = _copy.deepcopy(cases_arg) if use_cases and isinstance(cases_arg, list) and cases_arg and isinstance(cases_arg[0], dict) else None
    out, err, runner = None, None, None
    try:
        with quiet():
            if entry == "combo_to_ds":
                out = xyzpy.combo_runner_to_ds(fn, combos_arg, var_names, **descr, **opts)
            elif entry == "combo_to_df":
                out = xyzpy.combo_runner_to_df(fn, combos_arg, var_names, **descr, **opts)
            elif entry == "case_to_ds":
                out = xyzpy.case_runner_to_ds(fn, fn_args, cases_arg, var_names, combos=combos_arg, **descr, **opts)
            elif entry == "case_to_df":
                out = xyzpy.case_runner_to_df(fn, fn_args, cases_arg, var_names, combos=combos_arg, **descr, **opts)
            else:
                # the names of positional (tuple-form) cases can be STORED on the Runner / given to label() once, instead of
                # being repeated at every call
                stored = fn_args is not None and "cases" in entry and rs % 2 == 0
                d2 = dict(descr, fn_args=fn_args) if stored else descr
                if entry.startswith("label"):
                    runner = xyzpy.label(var_names, **d2)(fn)
                else:
                    runner = xyzpy.Runner(fn, var_names, **d2)
                if stored:
                    fn_args = None
                    ctx.count("positional_cases_named_by_stored_fn_args")
                kw = dict(opts)
                if run_constants:
                    kw["constants"] = run_constants
                if entry.endswith("_df"):
                    kw["to_df"] = True
                if "combos" in entry:
                    out = runner.run_combos(combos_arg, **kw)
                else:
                    if sub:
                        # the sub-grid as a mapping (documented), or as pairs
                        kw["combos"] = tuple((a, list(v)) for a, v in sub) if rs % 3 == 0 else {a: list(v) for a, v in sub}
                    out = runner.run_cases(cases_arg, fn_args=fn_args, **kw) if fn_args is not None \
                        else runner.run_cases(cases_arg, **kw)
    except Exception as e:
        err = e
    finally:
        if pool is not None:
            pool.shutdown(wait=True)

    logged = [r["k"] for r in loglist]
    ctx.count("calls_logged", len(logged))
    sig0 = {"api": entry, "xobj": bool(case["xobj"]), "shuffle": bool(case["shuffle"]), "exec": case["exec"],
            "var_dims_spelling": case.get("var_dims_spelling"), "to_df": is_df}
    if err is not None:
        ctx.violation(case, "%s raised %r" % (entry, err), dict(sig0, oracle="no-exception", **exc_sig(err)))
        ctx.observe(case, nontrivial=False)
        return

    want_keys = sorted(probe.canon({**p, **full_kwargs_extra}) for p in requested)
    if sorted(logged) != want_keys:
        cg = Counter(logged)
        ctx.violation(case, "call log != requested settings (%d calls, %d requested); missing=%s extra=%s" % (
            len(logged), len(want_keys), [k for k in want_keys if k not in cg][:2],
            [k for k in cg if k not in set(want_keys)][:2]), dict(sig0, oracle="exactly-once"))

    bad = []
    # the mappings handed in are the caller's: the library may not write into them (a Runner keeps using them)
    given_after = {"attrs": attrs, "constants": stored_constants, "run_constants": run_constants, "resources": resources}
    for gk, gv in given_after.items():
        ctx.count("caller_mappings_compared")
        if repr(gv) != repr(given_before[gk]):
            bad.append("the %s mapping handed in by the caller was modified by the call: %r -> %r" % (gk, given_before[gk], gv))

    if case_dicts_before is not None:
        ctx.count("caller_mappings_compared")
        if repr(cases_arg) != repr(case_dicts_before):
            bad.append("the case dicts handed in by the caller were modified by the call: %r -> %r" % (case_dicts_before[:2], cases_arg[:2]))

    def expected_outputs(p):
        v = probe.make(kind, {**p, **full_kwargs_extra})
        if case["xobj"]:
            if kind.startswith("dict"):
                return {"x": v["x"], "y": v["y"][1]}
            if kind.startswith("dataarray"):
                return {"y": v.values}
            return {"x": float(v["x"]), "y": v["y"].values}
        if len(outs) == 1:
            return {outs[0]["name"]: v}
        return {o["name"]: v[j] for j, o in enumerate(outs)}

    # ================================================================== DataFrame
    if is_df:
        import pandas as pd
        if not isinstance(out, pd.DataFrame):
            ctx.violation(case, "expected a DataFrame, got %s" % type(out).__name__, dict(sig0, oracle="type"))
            return
        df = out
        if len(df) != len(requested):
            bad.append("%d rows for %d evaluated settings" % (len(df), len(requested)))
        for a in swept:
            if a not in df.columns:
                bad.append("argument column %r missing" % a)
        for r in resources:
            if r in df.columns:
                bad.append("resource %r recorded as a column" % r)
        for k, v in attrs.items():
            if k not in df.columns or any(x != v for x in df[k].tolist()):
                bad.append("attr %r not recorded on every row" % k)
        if not bad:
            rows_seen = []
            for row in df.to_dict("records"):      # per-column dtypes (iterrows would upcast ints)
                p = {a: row[a] for a in swept}
                rows_seen.append(tuple(probe._cv(p[a]) for a in swept))
                exp = expected_outputs(p)
                for name, val in exp.items():
                    d = refmodel.deep_eq(row[name], val)
                    if d:
                        bad.append("row with args %s carries output %s=%r which belongs to another call (expected %r)" % (
                            {a: p[a] for a in swept}, name, row[name], val))
                        break
                for k, v in eff_constants.items():
                    if k in df.columns and refmodel.deep_eq(row[k], v):
                        bad.append("constant column %s=%r != %r" % (k, row[k], v))
                ctx.count("df_rows_checked")
                if bad:
                    break
            if not bad and Counter(rows_seen) != Counter(req_set_list(requested, swept)):
                bad.append("rows' argument settings are not the evaluated settings, one row each")
        for b in bad[:1]:
            ctx.violation(case, b, dict(sig0, oracle="df-row-pairing"))
        ctx.observe(case, key=_key(case, axes), nontrivial=len(requested) >= 2,
                    info={"rows": len(df), "calls": len(logged), "columns": [str(c) for c in df.columns]})
        return

    # ================================================================== Dataset
    import xarray as xr
    ds = out
    if isinstance(ds, xr.DataArray):
        ctx.count("dataarray_returns")
        top_attrs = dict(ds.attrs)
        ds = ds.to_dataset(name=ds.name or "y")
        ds.attrs = top_attrs
    if not isinstance(ds, xr.Dataset):
        ctx.violation(case, "expected a Dataset, got %s" % type(out).__name__, dict(sig0, oracle="type"))
        return
    if runner is not None and runner.last_ds is not out:
        bad.append("Runner.last_ds is not the returned dataset")

    used_dims = sorted({d for dims in out_vars.values() for d in dims})
    if set(ds.dims) != set(swept) | set(used_dims):
        bad.append("dims %s != swept %s + internal %s" % (sorted(ds.dims), swept, used_dims))
    if set(ds.data_vars) != set(out_vars):
        bad.append("data_vars %s != %s" % (sorted(ds.data_vars), sorted(out_vars)))
    if not bad:
        for a, vals in axes:
            got = ds[a].values.tolist()
            if [probe._cv(v) for v in got] != [probe._cv(v) for v in vals]:
                bad.append("coordinate %s = %s, expected %s (%s)" % (
                    a, got, vals, "sorted union of case values" if use_cases and a in (case["names"] or []) else "given order"))
        for name, dims in out_vars.items():
            if tuple(ds[name].dims) != tuple(swept) + tuple(dims):
                bad.append("variable %s has dims %s, expected %s" % (name, ds[name].dims, tuple(swept) + tuple(dims)))
        for d in used_dims:
            if ds.sizes[d] != dimsize[d]:
                bad.append("internal dim %s has size %d" % (d, ds.sizes[d]))
            if d in dim_values:
                if d not in ds.coords or [probe._cv(v) for v in ds[d].values.tolist()] != [probe._cv(v) for v in dim_values[d]]:
                    bad.append("internal coordinate %s = %s, expected %s" % (
                        d, ds[d].values.tolist() if d in ds.coords else None, dim_values[d]))
    # constants / resources / attrs
    for k in const_dims:
        if k in ds.attrs:
            bad.append("constant %r names a dimension but was recorded as an attribute (attrs=%r)" % (k, sorted(ds.attrs)))
    for k, v in eff_constants.items():
        if k in const_dims or k in ds.dims:
            continue
        if k not in ds.attrs or refmodel.deep_eq(refmodel._norm_attr(ds.attrs[k]), v):
            bad.append("constant %s=%r not recorded as attribute (attrs=%r)" % (k, v, dict(ds.attrs)))
    for r in resources:
        if r in ds.attrs or r in ds.coords or r in ds.data_vars or r in ds.dims:
            bad.append("resource %r was recorded in the dataset" % r)
    for k, v in attrs.items():
        if k not in ds.attrs or ds.attrs[k] != v:
            bad.append("extra attribute %s=%r lost (attrs=%r)" % (k, v, dict(ds.attrs)))

    # every labelled point
    if not bad:
        npts = 0
        for p in refmodel.grid_points(axes):
            try:
                sel = ds.sel(p)
            except Exception as e:
                bad.append("ds.sel(%s) failed: %r" % (p, e))
                break
            npts += 1
            is_req = tuple(probe._cv(p[a]) for a in swept) in req_set
            exp = expected_outputs(p) if is_req else None
            for name in out_vars:
                got = sel[name].values
                if is_req:
                    d = refmodel.deep_eq(got if np.ndim(got) else got.item(), exp[name])
                    if d:
                        bad.append("ds.sel(%s)[%r] is not what the function returned for those arguments: %s" % (p, name, d))
                        break
                else:
                    if not all(refmodel.is_null_leaf(l) for l in refmodel.leaves(got)):
                        bad.append("un-requested point %s holds data in %r: %s" % (p, name, refmodel._short(got)))
                        break
            if bad:
                break
        ctx.count("points_selected", npts)
    # the one-off constants of that run must not stick to the Runner: run it again without them
    if runner is not None and run_constants and not bad:
        try:
            p0 = requested[0]
            n0 = len(loglist)
            with quiet():
                if "combos" in entry:
                    ds2 = runner.run_combos({a: [p0[a]] for a in swept}, verbosity=0)
                else:
                    ds2 = runner.run_cases([dict(p0)], verbosity=0)
            ctx.count("second_runs_on_same_runner")
            want2 = probe.canon({**p0, **resources, **stored_constants})
            got2 = [r["k"] for r in loglist[n0:]]
            if got2 != [want2]:
                bad.append("a later run on the same Runner (without per-run constants) called the function with %s, expected %s: "
                           "the constants given 'for this run only' stuck to the Runner" % (got2, want2))
            for k in run_constants:
                if k not in stored_constants and (k in ds2.attrs or k in ds2.coords):
                    bad.append("a later run on the same Runner records %s=%r, a constant given to an EARLIER run only" % (k, ds2.attrs.get(k, ds2.coords.get(k))))
            for k, v in stored_constants.items():
                if k not in const_dims and k not in ds2.dims and refmodel.deep_eq(refmodel._norm_attr(ds2.attrs.get(k)), v):
                    bad.append("a later run records constant %s=%r, the Runner's stored value is %r" % (k, ds2.attrs.get(k), v))
        except Exception as e:
            bad.append("a second run on the same Runner raised %r" % (e,))
    for b in bad[:1]:
        ctx.violation(case, b, dict(sig0, oracle="ds-labelling"))
    ctx.observe(case, key=_key(case, axes), nontrivial=len(requested) >= 2,
                info={"dims": {str(k): int(v) for k, v in ds.sizes.items()}, "vars": {k: list(ds[k].dims) for k in ds.data_vars},
                      "attrs": sorted(ds.attrs), "calls": len(logged)})


def req_set_list(requested, swept):
    return [tuple(probe._cv(p[a]) for a in swept) for p in requested]


def _key(case, axes):
    return (case["entry"], [len(v) for _, v in axes], case["xobj"],
            [(o["dims"], o["type"]) for o in case["outputs"]] if case["outputs"] else None,
            case.get("var_names_spelling"), case.get("var_dims_spelling"), case.get("dim_coords"),
            sorted(case["constants"]), sorted(case["run_constants"]), sorted(case["resources"]), sorted(case["attrs"]),
            bool(case["shuffle"]), case["exec"], case.get("case_spelling"), case.get("combo_spelling"))
