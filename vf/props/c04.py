"""C04 -- sow, grow, reap returns exactly what running directly would have.

Events: probe call log over the whole pipeline (file-based, shared by all processes), the
batch files (which setting lives in which batch), the value returned by Crop.reap().
Oracle: reaped nest == reference grid per labelled position (and == an actual direct
combo_runner run); every setting evaluated exactly as many times as its batch was grown.
"""
import os
from collections import Counter

from .. import gens, probe, refmodel, cropkit
from ..common import quiet, exc_sig

PID = "C04"
LEVEL = "exploration"
TECHNIQUE = ("runtime monitoring: real sow/grow/reap pipelines (in-process and in fresh interpreters) with a shared "
             "call log, reaped values decoded per labelled position against a reference grid and a direct run")
RULE = ("seeded workloads (grids / case lists / cases x sub-grids, 1-40 settings, mixed result kinds) x batchsize in "
        "1..n+1 | num_batches in 1..n+2 | neither x shuffle in {False, True, int} given to the constructor or the sow "
        "call x sow_combos/sow_cases x grow plans (random permutations and partitions of batch ids over grow(), "
        "Crop.grow, grow_missing, num_workers, grow from inside the crop folder, repeated grows) x a new Crop object "
        "from name+directory between steps x steps in fresh interpreters with a by-value pickled function; scalar-valued crops are also collected as a table (to_df, nothing deleted) before the usual reap; reaps told to wait (also on ten and more batches); decorated functions whose decorator is the observable part; another thread drawing from the shared random generator right after each seeding; crops sown anew behind a long-lived Crop object with preserved time stamps; distinct "
        "by (workload shape, batching, shuffle, plan); non-trivial when >= 2 batches")
ASSUMPTIONS = [
    "a raw reap may nest its axes in the crop's canonical (name-sorted) argument order or in the given order; values are compared per labelled position",
    "fresh processes get PYTHONPATH from the harness; the probe is pickled by value for them, so they do not need vf to unpickle the function",
]
SHARDS = {"quick": 8, "thorough": 16}
MIN_REACH = {
    "crops_sown_anew_whose_settings_file_kept_its_size_and_time_stamp": {"quick": 3, "thorough": 10},
    "earlier_crops_whose_cleanup_hit_an_error": {"quick": 5, "thorough": 100},
    "pipelines_reaped": {"quick": 120, "thorough": 2000},
    "crops_also_reaped_as_a_table": {"quick": 8, "thorough": 120},
    "reaps_told_to_wait_on_ten_and_more_batches": {"quick": 4, "thorough": 80},
    "pipelines_while_another_thread_draws_random_numbers": {"quick": 15, "thorough": 300},
    "pipelines_whose_function_is_a_decorated_one": {"quick": 8, "thorough": 200},
    "fresh_process_steps": {"quick": 15, "thorough": 300},
    "batches_grown": {"quick": 450, "thorough": 10000},
    "positions_compared": {"quick": 700, "thorough": 25000},
    "regrown_batches": {"quick": 20, "thorough": 300},
}
TIME_BUDGET = {"quick": 400, "thorough": 3400}
CASE_TIMEOUT = {"quick": 300, "thorough": 600}


def _plan(rng, B):
    """Random grow plan covering all batches: permutation, partition into steps, repeats."""
    ids = list(range(1, B + 1))
    rng.shuffle(ids)
    steps = []
    i = 0
    while i < len(ids):
        j = min(len(ids), i + rng.randint(1, max(1, B // 2 + 1)))
        how = rng.choice(["grow_fn", "crop_grow", "crop_grow", "grow_missing", "grow_cwd"])
        st = {"how": how, "ids": ids[i:j], "reload": rng.random() < 0.5}
        if how == "grow_missing":
            st["ids"] = None
            i = len(ids)
        else:
            i = j
        if how == "crop_grow" and rng.random() < 0.3:
            st["shuffle"] = rng.randint(1, 99)
        steps.append(st)
        if rng.random() < 0.25 and how != "grow_missing":
            # grow some already grown batches again
            again = rng.sample(ids[:j], rng.randint(1, min(3, j)))
            steps.append({"how": rng.choice(["grow_fn", "crop_grow"]), "ids": again, "reload": rng.random() < 0.5})
    return steps


def _gen(rng, fresh):
    w = cropkit.gen_workload(rng, nmax=40, exotic=True)
    if w["mode"] != "grid":
        w["via"] = rng.choice(["sow_combos", "sow_cases", "sow_cases"])
        w["case_spelling"] = rng.choice(["dict", "tuple"])
    n = gens.n_settings(w["combos"], w["cases"])
    c = {"w": w, "batchsize": None, "num_batches": None, "where": rng.choice(["ctor", "sow"]),
         "shuffle": gens.gen_shuffle(rng), "shuffle_where": rng.choice(["ctor", "sow"]),
         "fresh": fresh, "by_value": fresh or rng.random() < 0.3, "pseed": rng.randint(0, 10 ** 9),
         "spelling": rng.choice(["dict", "tuple", "list"]), "reload_before_reap": rng.random() < 0.6,
         # the function is NOT written to disk: every grow is handed the function explicitly
         "save_fn": False if (not fresh and rng.random() < 0.12) else None,
         # an earlier campaign at the SAME name and directory, with another function, sown/grown/reaped by this very process
         "prelude": (not fresh) and rng.random() < 0.2}
    r = rng.random()
    if r < 0.45:
        c["batchsize"] = rng.randint(1, n + 1)
    elif r < 0.9:
        c["num_batches"] = rng.randint(1, n + 2)
    return c


def cases(ctx):
    rng = ctx.rng("cases")
    n = ctx.pick(150, 2600)
    nfresh = ctx.pick(10, 160)
    for i in range(n):
        c = _gen(rng, fresh=(i % (n // nfresh) == 0))
        c["table_first"] = i % 2 == 1
        c["reap_waits"] = i % 3 == 0
        c["other_thread_draws"] = i % 4 == 2 and not c["fresh"]
        c["decorated"] = i % 5 == 3 and not c["fresh"]
        yield c
    # loky workers inside grow / across batches (slow to start, sampled)
    for i in range(ctx.pick(8, 60)):
        c = _gen(rng, fresh=False)
        c["num_workers"] = 2
        if i % 2 == 0:
            # cases of ONE batch evaluated by a pool (grow(i, crop, num_workers=k), as the cluster scripts do), with
            # per-call jitter so that later cases of a batch finish before earlier ones
            n = gens.n_settings(c["w"]["combos"], c["w"]["cases"])
            c["batchsize"], c["num_batches"] = max(2, min(n, rng.randint(3, 6))), None
            c["within_batch_pool"] = True
            c["jitter_us"] = 30000
        yield c

    # a crop deleted and sown ANEW (another grid / another batching, a settings file of the same size and time stamp) while a
    # long-lived Crop object that had looked at the earlier crop is still in use
    for k in range(ctx.pick(4, 12)):
        yield {"stale_settings": ["grid", "batching"][k % 2], "k": k}


def run_case(ctx, case):
    """In some in-process pipelines ANOTHER THREAD of the calling program draws numbers from the process-wide `random`
    generator at moments of its own choosing (injected deterministically: right after each time the library seeds that
    generator, a growing number of draws): where a setting was sown and where it is reaped must not depend on that."""
    if case.get("stale_settings"):
        import xyzpy as _x
        tmp_ = ctx.mkdtemp("stale")
        try:
            with quiet():
                probs_, same_size_ = cropkit.stale_settings_scenario(_x, tmp_, case["stale_settings"], farmer=False)
        except Exception as e_:
            probs_, same_size_ = ["the scenario raised %r" % (e_,)], False
        ctx.count("crops_sown_anew_behind_a_long_lived_crop_object")
        if same_size_:
            ctx.count("crops_sown_anew_whose_settings_file_kept_its_size_and_time_stamp")
        for m_ in probs_[:2]:
            ctx.violation(case, m_, {"api": "long-lived Crop", "oracle": "looks-at-the-crop-that-is-there", "variant": case["stale_settings"]})
        ctx.observe(case, key=("stale", case["stale_settings"], case["k"]))
        ctx.rmtree(tmp_)
        return
    if not case.get("other_thread_draws"):
        return _run_case(ctx, case)
    import random as _random
    real_seed = _random.seed
    n = [0]

    def seed_then_the_other_thread_draws(*a, **k):
        real_seed(*a, **k)
        n[0] += 1
        for _ in range(n[0]):
            _random.random()
    _random.seed = seed_then_the_other_thread_draws
    ctx.count("pipelines_while_another_thread_draws_random_numbers")
    try:
        return _run_case(ctx, case)
    finally:
        _random.seed = real_seed


def _run_case(ctx, case):
    import xyzpy
    w = case["w"]
    rng = ctx.rng("plan", case["pseed"])
    tmp = ctx.mkdtemp("crop")
    logfile = os.path.join(tmp, "calls.log")
    kind = w["kind"]
    constants = dict(w["constants"])
    name = "c4"
    sig = {"api": "sow/grow/reap", "form": w["mode"], "via": w.get("via", "sow_combos"), "shuffle": bool(case["shuffle"]),
           "shuffle_where": case["shuffle_where"] if case["shuffle"] else None, "fresh": case["fresh"],
           "batching": "size" if case["batchsize"] else "count" if case["num_batches"] else "default"}

    ctor, sowkw = {}, {}
    target = ctor if case["where"] == "ctor" else sowkw
    if case["batchsize"] is not None:
        target["batchsize"] = case["batchsize"]
    if case["num_batches"] is not None:
        target["num_batches"] = case["num_batches"]
    shuffle_at_sow, shuffle_attr = None, None
    uses_sow_cases = w["mode"] != "grid" and w.get("via") != "sow_combos"
    if case["shuffle"] is not False:
        if case["shuffle_where"] == "ctor":
            ctor["shuffle"] = case["shuffle"]
            if not uses_sow_cases and case["pseed"] % 2:
                # sow_combos(shuffle=None): no new setting at the sow call, the constructor's one stays in force
                shuffle_at_sow = "keep"
                ctx.count("grids_sown_with_the_constructors_shuffle_kept")
        elif uses_sow_cases:
            shuffle_attr = case["shuffle"]      # sow_cases has no shuffle argument
        else:
            shuffle_at_sow = case["shuffle"]

    def fail(msg, **extra):
        ctx.violation(case, msg, dict(sig, **extra))
        ctx.rmtree(tmp)
        ctx.observe(case, nontrivial=False)

    # ------------------------------------------------------------------ an earlier crop at the same place
    if case.get("prelude"):
        try:
            with quiet():
                okind = "str" if not kind.startswith("str") else "int"
                c0 = xyzpy.Crop(fn=probe.Probe(okind, name="probe"), name=name, parent_dir=tmp, batchsize=2)
                c0.sow_combos({"zz": [1, 2, 3]}, verbosity=0)
                xyzpy.Crop(name=name, parent_dir=tmp).grow_missing()
                r0 = None
                if case["pseed"] % 2:
                    # the clean-up at the end of that reap cannot remove one result file (a straggling worker re-published it,
                    # an NFS placeholder, a permission): if the reap says so (raises) the user clears the folder by hand; if it
                    # says nothing, nobody does
                    import shutil
                    real_unlink = os.unlink
                    hit = []

                    def failing_unlink(path, *a, **k):
                        if str(path).endswith("xyz-result-1.jbdmp") and not hit:
                            hit.append(path)
                            raise OSError(39, "Directory not empty (injected)", str(path))
                        return real_unlink(path, *a, **k)
                    os.unlink = failing_unlink
                    try:
                        r0 = c0.reap()
                    except OSError:
                        os.unlink = real_unlink
                        shutil.rmtree(cropkit.crop_dir(tmp, name), ignore_errors=True)
                    finally:
                        os.unlink = real_unlink
                    ctx.count("earlier_crops_whose_cleanup_hit_an_error")
                else:
                    r0 = c0.reap()
            if r0 is not None and refmodel.deep_eq(r0, tuple(probe.make(okind, {"zz": v}) for v in (1, 2, 3))):
                return fail("the earlier crop at the same place reaped %r" % (r0,), step="prelude")
            ctx.count("crops_reusing_a_location")
        except Exception as e:
            return fail("earlier crop at the same place raised %r" % (e,), step="prelude", **exc_sig(e))

    # ------------------------------------------------------------------ sow
    crop = None
    if case["fresh"]:
        r = cropkit.run_actor({"op": "sow", "kind": kind, "logfile": logfile, "by_value": True, "name": name, "parent": tmp,
                               "ctor": ctor, "w": dict(w), "shuffle_at_sow": shuffle_at_sow, "shuffle_attr": shuffle_attr,
                               "sowkw": dict(sowkw, spelling=case["spelling"])}, tmp)
        ctx.count("fresh_process_steps")
        if r[0] != "ok":
            return fail("sow in a fresh process failed: %r" % (r,), step="sow", exc=str(r[1]) if len(r) > 1 else r[0])
    else:
        ctl = None
        if case.get("jitter_us"):
            ctl = os.path.join(tmp, "ctl.json")
            probe.write_ctl(ctl, jitter_us=case["jitter_us"], jitter_seed=case["pseed"])
        fn = cropkit.build_probe(kind, logfile, ctl=ctl, name="probe", by_value=case["by_value"])
        argn_ = list(w["names"] or []) + [a for a, _ in w["combos"]] + list(constants)
        if case.get("decorated") and all(isinstance(a, str) and a.isidentifier() for a in argn_) and len(set(argn_)) == len(argn_):
            # the swept function is a functools.wraps-DECORATED one: the decorator is the part that leaves a trace in the
            # call log (the function underneath computes the same values silently) - what is grown is what was given
            fn = probe.make_fn(argn_, kind=kind, logfile=logfile, ctl=ctl, name="probe", wrapped=True)
            ctx.count("pipelines_whose_function_is_a_decorated_one")
        try:
            with quiet():
                if case.get("save_fn") is False:
                    ctor["save_fn"] = False
                crop = xyzpy.Crop(fn=fn, name=name, parent_dir=tmp, **ctor)
                if shuffle_attr is not None:
                    crop.shuffle = shuffle_attr
                cropkit.sow(crop, w, shuffle_at_sow=shuffle_at_sow, spelling=case["spelling"], **sowkw)
        except Exception as e:
            return fail("sow raised %r" % (e,), step="sow", **exc_sig(e))

    # which setting lives in which batch (read from the files the sower wrote)
    batch_of = {}
    files = cropkit.batch_files(tmp, name)
    B = len(files)
    for i, p in files.items():
        for kw in cropkit.read_pickle(p):
            batch_of.setdefault(probe.canon(kw), []).append(i)
    if B == 0:
        return fail("no batch files after sowing", step="sow")

    # ------------------------------------------------------------------ grow
    grown = Counter()
    plan = _plan(rng, B)
    nosave = case.get("save_fn") is False
    if nosave:
        ctx.count("unsaved_function_pipelines")
        for st in plan:
            st["how"] = "grow_fn" if st["how"] != "grow_missing" else "grow_missing_fn"
    if case.get("within_batch_pool"):
        ids_ = list(range(1, B + 1))
        rng.shuffle(ids_)
        plan = [{"how": "grow_fn", "ids": ids_, "reload": True}]
    for st in plan:
        how = st["how"]
        missing_now = [i for i in range(1, B + 1) if grown[i] == 0]
        ids = missing_now if how in ("grow_missing", "grow_missing_fn") else list(st["ids"])
        kw = {}
        if case.get("num_workers") and how in ("crop_grow", "grow_missing", "grow_fn"):
            kw["num_workers"] = 2
        if st.get("shuffle") and how == "crop_grow":
            kw["shuffle"] = st["shuffle"]
        if case["fresh"]:
            r = cropkit.run_actor({"op": how, "ids": ids, "name": name, "parent": tmp, "kw": kw}, tmp)
            ctx.count("fresh_process_steps")
            if r[0] != "ok":
                return fail("%s%s in a fresh process failed: %r" % (how, ids, r), step=how,
                            exc=str(r[1]) if len(r) > 1 else r[0])
        else:
            try:
                with quiet():
                    if st["reload"] or crop is None:
                        crop = xyzpy.Crop(name=name, parent_dir=tmp) if not nosave else \
                            xyzpy.Crop(fn=fn, name=name, parent_dir=tmp, save_fn=False)
                        ctx.count("crop_reloads")
                    if nosave:
                        kw["fn"] = fn
                    if how == "grow_missing_fn":
                        for i in crop.missing_results():
                            xyzpy.grow(i, crop=crop, verbosity=0, **kw)
                    elif how == "grow_fn":
                        for i in ids:
                            xyzpy.grow(i, crop=crop, verbosity=0, **kw)
                    elif how == "grow_cwd":
                        old = os.getcwd()
                        os.chdir(crop.location)
                        try:
                            for i in ids:
                                xyzpy.grow(i, verbosity=0)
                        finally:
                            os.chdir(old)
                    elif how == "crop_grow":
                        crop.grow(ids if len(ids) > 1 or rng.random() < 0.5 else ids[0], **kw)
                    else:
                        crop.grow_missing(**kw)
            except Exception as e:
                return fail("%s(%s) raised %r" % (how, ids, e), step=how, **exc_sig(e))
        for i in ids:
            grown[i] += 1
    ctx.count("batches_grown", sum(grown.values()))
    ctx.count("regrown_batches", sum(1 for v in grown.values() if v > 1))
    if any(grown[i] == 0 for i in range(1, B + 1)):
        raise AssertionError("plan did not cover all batches")

    # ------------------------------------------------------------------ reap
    if case["fresh"]:
        r = cropkit.run_actor({"op": "reap", "name": name, "parent": tmp}, tmp)
        ctx.count("fresh_process_steps")
        if r[0] != "ok":
            return fail("reap in a fresh process failed: %r" % (r,), step="reap", exc=str(r[1]) if len(r) > 1 else r[0])
        result = r[1]
    else:
        try:
            with quiet():
                if case["reload_before_reap"]:
                    crop = xyzpy.Crop(name=name, parent_dir=tmp) if not nosave else \
                        xyzpy.Crop(fn=fn, name=name, parent_dir=tmp, save_fn=False)
                table = None
                if kind in ("int", "float", "str", "bool") and case.get("table_first"):
                    # the same crop first collected as a table, one row per setting (nothing is deleted by that), then as usual
                    table = crop.reap_combos_to_ds(var_names=["y"], to_df=True, clean_up=False)
                if case.get("reap_waits") or (B >= 10 and "table_first" in case and not case["table_first"]):
                    # the reaper was told to wait for results (they are all there already): the same result
                    result = crop.reap(wait=True)
                    ctx.count("reaps_told_to_wait")
                    if B >= 10:
                        ctx.count("reaps_told_to_wait_on_ten_and_more_batches")
                else:
                    result = crop.reap()
        except Exception as e:
            return fail("reap raised %r" % (e,), step="reap", **exc_sig(e))
        if table is not None:
            swept = (w["names"] or []) + [a for a, _ in w["combos"]]
            rows = table.to_dict("records")
            req_ = cropkit.requested_settings(w)
            tb = None
            if len(rows) != len(req_):
                tb = "%d rows for %d settings" % (len(rows), len(req_))
            else:
                seen_ = set()
                for row in rows:
                    p_ = {a: row[a] for a in swept}
                    seen_.add(probe.canon(p_))
                    d_ = refmodel.deep_eq(row["y"], probe.make(kind, {**p_, **constants}))
                    if d_:
                        tb = "row %s: %s" % (p_, d_)
                        break
                if tb is None and seen_ != {probe.canon({a: q[a] for a in swept}) for q in req_}:
                    tb = "rows do not cover the settings once each"
            if tb:
                return fail("the crop reaped as a table differs from a direct run: " + tb, step="reap", oracle="table-rows")
            ctx.count("crops_also_reaped_as_a_table")
    ctx.count("pipelines_reaped")

    # ------------------------------------------------------------------ oracle
    bad = []
    d, nmiss = cropkit.compare_nest(result, w, constants, kind)
    if d:
        bad.append(("placement", "reaped result differs from the reference grid: " + d))
    req = cropkit.requested_settings(w)
    ctx.count("positions_compared", len(req) + nmiss)

    recs, _ = probe.read_log(logfile)
    logged = Counter(r["k"] for r in recs)
    want = Counter()
    for p in req:
        k = probe.canon({**p, **constants})
        bs = batch_of.get(k)
        if not bs or len(bs) != 1:
            bad.append(("partition", "setting %s is in batches %s" % (k, bs)))
            continue
        want[k] = grown[bs[0]]
    if logged != want:
        diff = [(k, logged.get(k, 0), want.get(k, 0)) for k in set(logged) | set(want) if logged.get(k, 0) != want.get(k, 0)]
        bad.append(("exactly-once", "evaluations != grows of the owning batch (setting, calls, expected): %s" % (diff[:3],)))
    ctx.seen("worker_pids", ",".join(sorted({str(r["pid"]) for r in recs}))[:60])

    # the same inputs through a direct in-process run
    try:
        l2 = []
        with quiet():
            direct = xyzpy.combo_runner(probe.Probe(kind, loglist=l2), gens.spell_combos([(a, list(v)) for a, v in w["combos"]], "dict") or None,
                                        cases=[dict(c) for c in w["cases"]] if w["cases"] else None,
                                        constants=constants or None, verbosity=0)
        d2, _ = cropkit.compare_nest(direct, w, constants, kind)
        if d2:
            for o, msg in bad[:2]:          # (what was found so far is reported before the harness error surfaces)
                ctx.violation(case, msg, dict(sig, oracle=o))
            raise AssertionError("direct run itself differs from the reference: " + d2)
    except AssertionError:
        raise
    except Exception as e:
        bad.append(("direct-run", "direct combo_runner raised %r" % (e,)))

    for o, msg in bad[:2]:
        ctx.violation(case, msg, dict(sig, oracle=o))
    ctx.rmtree(tmp)
    ctx.observe(case, key=(w["mode"], w.get("via"), [len(v) for _, v in w["combos"]], len(w["cases"] or ()), kind,
                           case["batchsize"], case["num_batches"], case["where"], case["shuffle"], case["shuffle_where"],
                           case["fresh"], [(s["how"], s["ids"]) for s in plan]),
                nontrivial=B >= 2,
                info={"settings": len(req), "batches": B, "plan": [(s["how"], s["ids"]) for s in plan][:6],
                      "grows_per_batch": dict(grown), "calls_logged": sum(logged.values()),
                      "processes": len({r["pid"] for r in recs})})
