"""C09 -- a partial reap shows finished batches exactly and everything else as missing.

Events: value / exception of Crop.reap(allow_incomplete=...), byte-exact snapshot of the
crop directory before and after, the batch files (which positions belong to which batch).
Oracle: positions of finished batches hold exactly the encoded value, every other position
is an all-null placeholder; nothing is deleted; a plain reap of an incomplete crop raises
XYZError and leaves the tree untouched; growing the rest and reaping is exact.
"""
import os
import time
import shutil
import itertools

import numpy as np

from .. import gens, probe, refmodel, cropkit
from ..common import quiet, exc_sig

PID = "C09"
LEVEL = "exploration"
TECHNIQUE = ("runtime monitoring: real crops grown once, then every subset of result files is presented to the real "
             "reap(allow_incomplete=True); per-position oracle + byte-exact directory snapshots")
RULE = ("for every N in 2..12 and every batchsize / num_batches giving 2..Bmax batches (Bmax = 4 quick / 7 thorough): "
        "EVERY non-empty proper subset of finished batches is reaped; shuffle in {False, True, int}, reap form in "
        "{raw, Runner->Dataset, reap_combos_to_ds, DataFrame} and result kind in {float,int,bool,str,array,tuple,"
        "nested list,Dataset} rotate over the configurations (all three shuffle settings crossed in thorough); "
        "a Harvester form whose partial reaps race with the last grower; partial reaps through a handle older than the sow; for a third of the configurations the location was used before by a crop of another result kind; for a quarter of the crops the batch files carry later timestamps than the results; for a third of the subsets an unfinished batch has the real leftover of a failed result write lying in the crop; crops without a saved function reaped through handles that never loaded the crop (autoload=False); partial reaps with warnings turned into errors; functions returning a plain dict of outputs; earlier and later crops whose settings files share one time stamp; a (configuration, subset) pair is one execution; non-trivial always (>= 2 batches, >= 1 missing)")
RULE += '; several outputs of which one is an array of exactly one element (multi:s,a1 / multi:a1x1,s)'
ASSUMPTIONS = [
    "missing = all leaves NaN/None with the real result's shape; in DataFrame form a missing setting is a row whose outputs are all null",
]
EXHAUSTIVE = {"quick": True, "thorough": True}
EXHAUSTIVE_NOTE = ("all non-empty proper subsets for all (N<=12, batching) with 2<=B<=4 (quick) / 2<=B<=7 (thorough); "
                   "shuffle/form/kind are rotated, not crossed, except shuffle in thorough")
SHARDS = {"quick": 8, "thorough": 16}
MIN_REACH = {
    "partial_reaps": {"quick": 400, "thorough": 6000},
    "crops_with_an_array_output_of_exactly_one_element_among_several_outputs": {"quick": 2, "thorough": 6},
    "refusals_checked": {"quick": 400, "thorough": 6000},
    "missing_positions_checked": {"quick": 1500, "thorough": 30000},
    "full_reaps_after_partial": {"quick": 40, "thorough": 500},
    "subsets_with_failed_write_leftovers": {"quick": 80, "thorough": 1200},
    "locations_used_before_by_another_crop": {"quick": 10, "thorough": 100},
    "partial_reaps_racing_with_the_last_grower": {"quick": 10, "thorough": 100},
    "cases_reaped_through_a_handle_older_than_the_sow": {"quick": 8, "thorough": 80},
    "crops_whose_batch_files_are_newer_than_the_results": {"quick": 10, "thorough": 100},
    "crops_whose_path_contains_pattern_characters": {"quick": 8, "thorough": 80},
    "cases_reaped_through_the_object_that_reaped_an_earlier_crop": {"quick": 5, "thorough": 60},
    "partial_reaps_of_a_harvester_crop_without_sync": {"quick": 8, "thorough": 100},
    "crops_without_a_saved_function_reaped_through_bare_handles": {"quick": 6, "thorough": 60},
    "partial_reaps_with_warnings_turned_into_errors": {"quick": 50, "thorough": 800},
    "crops_whose_function_returns_a_plain_dict_of_outputs": {"quick": 2, "thorough": 7},
    "crops_whose_settings_file_has_the_time_stamp_of_the_earlier_crops": {"quick": 5, "thorough": 50},
}
TIME_BUDGET = {"quick": 400, "thorough": 3400}
CASE_TIMEOUT = {"quick": 300, "thorough": 900}

FORMS = ["raw", "runner_ds", "raw", "to_ds", "harvester_ds", "raw", "to_df"]
KINDS = {"raw": ["float", "array:3", "bool", "str", "tuple:2", "list:2x2", "int", "dataset:2", "mixed", "iarray:3", "barray:2", "iarray:2x2",
                 # several outputs, one of them an array of exactly ONE element (a single time step)
                 "multi:s,a1", "multi:a1x1,s"],
         "runner_ds": ["float", "array:3", "bool", "str", "dataset:2", "int", "multi:s,t", "dict:2"],
         "to_ds": ["float", "array:3", "dataset:2", "multi:s,a3", "multi:s,t", "dict:2", "multi:s,a1"],
         "harvester_ds": ["float", "array:3", "int"],
         "to_df": ["float", "str", "multi:s,s", "int"]}


def _workload(n, variant):
    """n settings as a grid (one shape per n, rotated) or as a case list."""
    if variant % 3 == 2:
        return {"mode": "cases", "names": ["p", "q"], "cases": [{"p": i // 2, "q": "s%d" % (i % 2 + 2 * (i // 4))} for i in range(n)],
                "combos": [], "constants": {}, "via": "sow_cases"}
    shapes = [(a, n // a) for a in range(1, n + 1) if n % a == 0]
    a, b = shapes[variant % len(shapes)]
    combos = [["b", list(range(1, a + 1))], ["a", ["v%d" % i for i in range(b)]]]
    return {"mode": "grid", "names": None, "cases": None, "combos": [c for c in combos if len(c[1]) >= 1], "constants": {"c0": 3}}


def cases(ctx):
    bmax = ctx.pick(4, 7)
    idx = 0
    shuffles = [False, True, 7]
    for n in range(2, 13):
        confs = []
        for s in range(1, n + 1):
            if 2 <= -(-n // s) <= bmax:
                confs.append(("batchsize", s))
        for k in range(2, min(n, bmax) + 1):
            confs.append(("num_batches", k))
        for mode, val in confs:
            for sh in (shuffles if not ctx.quick else [shuffles[idx % 3]]):
                form = FORMS[idx % len(FORMS)]
                kind = KINDS[form][(idx // len(FORMS)) % len(KINDS[form])]
                w = _workload(n, idx)
                w["kind"] = kind
                yield {"n": n, mode: val, "shuffle": sh, "form": form, "w": w, "idx": idx,
                       "shuffle_where": ["ctor", "sow"][idx % 2]}
                idx += 1
    # seeded samples beyond the enumerated range (more arguments, constants, bigger N)
    rng = ctx.rng("sampled")
    for i in range(ctx.pick(30, 400)):
        w = cropkit.gen_workload(rng, nmax=30, nmin=2, kinds=KINDS["raw"], exotic=True)
        if w["mode"] != "grid":
            w["via"] = rng.choice(["sow_combos", "sow_cases"])
        n = gens.n_settings(w["combos"], w["cases"])
        c = {"n": n, "shuffle": rng.choice([False, True, rng.randint(2, 999)]), "form": "raw", "w": w, "idx": 10000 + i,
             "shuffle_where": rng.choice(["ctor", "sow"]), "sample_subsets": 6, "sseed": rng.randint(0, 10 ** 9)}
        if rng.random() < 0.5:
            c["batchsize"] = rng.randint(1, max(1, n // 2))
        else:
            c["num_batches"] = rng.randint(2, min(n, 9)) if rng.random() < 0.6 else rng.randint(min(n, 10), min(n, 14))   # (also more than nine batches of uneven size)
        yield c


def _descr(kind):
    """Runner description (var_names, var_dims, var_coords) for a probe kind."""
    if kind.startswith(("dataset", "dict")):      # (dict: the outputs as a plain dict of name -> value / (dims, values))
        return None, None, None
    if kind == "array:3":
        return "y", {"y": "t"}, {"t": [0.1, 0.2, 0.3]}
    if kind == "multi:s,a3":
        return ["y", "z"], {"z": "t"}, {"t": [0.1, 0.2, 0.3]}
    if kind == "multi:s,a1":
        return ["y", "z"], {"z": "t"}, {"t": [0.25]}
    if kind in ("multi:s,s", "multi:s,t"):        # (multi:s,t: a number and a text label per setting)
        return ["y", "z"], None, None
    return "y", None, None


def _outputs(kind, v):
    if kind.startswith("dataset"):
        return {"x": float(v["x"]), "y": v["y"].values}
    if kind.startswith("dict"):
        return {"x": float(v["x"]), "y": np.asarray(v["y"][1])}
    if kind.startswith("multi"):
        return {"y": v[0], "z": v[1]}
    return {"y": v}


class _Unwritable(object):
    """A result whose pickling fails half-way (like a full disk)."""

    def __reduce__(self):
        raise OSError(28, "No space left on device (injected)")


def run_case(ctx, case):
    import xyzpy
    from xyzpy.utils import XYZError
    w = case["w"]
    kind = w["kind"]
    form = case["form"]
    constants = dict(w["constants"])
    root = tmp = ctx.mkdtemp("crop")
    if case["idx"] % 5 == 2:
        # a directory whose name contains characters that are special in file-name patterns
        tmp = os.path.join(root, "scan [2] a*b")
        os.makedirs(tmp)
        ctx.count("crops_whose_path_contains_pattern_characters")
    name = "c9"
    sig = {"api": "reap(allow_incomplete)", "form": form, "kind": kind.split(":")[0], "shuffle": bool(case["shuffle"]),
           "batching": "size" if case.get("batchsize") else "count"}
    fn = probe.Probe(kind, name="probe")
    if kind.startswith("dict"):
        ctx.count("crops_whose_function_returns_a_plain_dict_of_outputs")
    if kind in ("multi:s,a1", "multi:a1x1,s"):
        ctx.count("crops_with_an_array_output_of_exactly_one_element_among_several_outputs")
    ctor = {}
    if case.get("batchsize"):
        ctor["batchsize"] = case["batchsize"]
    if case.get("num_batches"):
        ctor["num_batches"] = case["num_batches"]
    uses_sow_cases = w["mode"] != "grid" and w.get("via") != "sow_combos"
    shuffle_at_sow = None
    if case["shuffle"]:
        if case["shuffle_where"] == "ctor" or uses_sow_cases:
            ctor["shuffle"] = case["shuffle"]
        else:
            shuffle_at_sow = case["shuffle"]
    var_names, var_dims, var_coords = _descr(kind)
    pc = None
    # a crop whose function is NOT saved beside it (save_fn=False: the function is handed to each grower explicitly), looked
    # at through handles that never load the crop's information (autoload=False: a monitoring / collecting script)
    nosave = form not in ("runner_ds", "harvester_ds") and case["idx"] % 7 == 3
    if nosave:
        ctor["save_fn"] = False
        ctx.count("crops_without_a_saved_function_reaped_through_bare_handles")
    if case["idx"] % 3 == 1 and not nosave:
        # second use of the same location in one process: an earlier crop of the same name, whose function returned a
        # DIFFERENT kind of result, was partially reaped, finished, reaped and thereby deleted
        try:
            with quiet():
                pk = "str" if not kind.startswith("str") else "tuple:2"
                pc = xyzpy.Crop(fn=probe.Probe(pk, name="probe"), name=name, parent_dir=tmp, batchsize=1)
                pc.sow_combos({"a": [1, 2, 3]})
                if case["idx"] % 2 == 1:
                    # a file system with coarse time stamps / a directory restored with preserved times: the settings files
                    # of the earlier and of the later crop carry the SAME modification time
                    os.utime(os.path.join(cropkit.crop_dir(tmp, name), "xyz-settings.jbdmp"), (1.7e9, 1.7e9))
                pc.grow(2)
                pc.reap(allow_incomplete=True)
                pc.grow_missing()
                pc.reap()
            ctx.count("locations_used_before_by_another_crop")
        except Exception as e:
            ctx.violation(case, "prelude crop at the same location raised %r" % (e,), dict(sig, step="prelude", **exc_sig(e)))
            ctx.rmtree(root)
            return
    early = None
    if nosave:
        pass
    elif form not in ("runner_ds", "harvester_ds") and case["idx"] % 4 == 2:
        # a handle on the crop that was created (by name) BEFORE anything was sown - a monitoring notebook opened first;
        # every partial reap of this case goes through it
        with quiet():
            early = xyzpy.Crop(name=name, parent_dir=tmp)
        ctx.count("cases_reaped_through_a_handle_older_than_the_sow")
    elif form not in ("runner_ds", "harvester_ds") and pc is not None and case["idx"] % 2 == 1:
        # ... or the very object that partially reaped the EARLIER crop at this place (whose results were of another kind):
        # what it learnt about that crop's missing-result stand-in must not leak into this one
        early = pc
        ctx.count("cases_reaped_through_the_object_that_reaped_an_earlier_crop")
    try:
        with quiet():
            if form in ("runner_ds", "harvester_ds"):
                runner = xyzpy.Runner(fn, var_names, var_dims=var_dims, var_coords=var_coords)
                if form == "harvester_ds":
                    runner = xyzpy.Harvester(runner, data_name=os.path.join(tmp, "hv.h5") if case["idx"] % 2 else None)
                crop = xyzpy.Crop(farmer=runner, name=name, parent_dir=tmp, **ctor)
            else:
                crop = xyzpy.Crop(fn=fn, name=name, parent_dir=tmp, **ctor)
            cropkit.sow(crop, w, shuffle_at_sow=shuffle_at_sow)
            if pc is not None and case["idx"] % 2 == 1:
                os.utime(os.path.join(cropkit.crop_dir(tmp, name), "xyz-settings.jbdmp"), (1.7e9, 1.7e9))
                ctx.count("crops_whose_settings_file_has_the_time_stamp_of_the_earlier_crops")
            if nosave:
                from xyzpy.gen.cropping import grow as _grow
                for i_ in crop.missing_results():
                    _grow(i_, crop=crop, fn=fn, verbosity=0)
            else:
                crop.grow_missing()
    except Exception as e:
        ctx.violation(case, "sow/grow raised %r" % (e,), dict(sig, step="sow/grow", **exc_sig(e)))
        ctx.rmtree(root)
        return
    loc = cropkit.crop_dir(tmp, name)
    files = cropkit.batch_files(tmp, name)
    B = len(files)
    batch_of = {}
    for i, p in files.items():
        for kw in cropkit.read_pickle(p):
            batch_of[probe.canon(kw)] = i
    stash = os.path.join(tmp, "stash")
    os.makedirs(stash)
    rfiles = cropkit.result_files(tmp, name)
    if sorted(rfiles) != list(range(1, B + 1)):
        ctx.violation(case, "after grow_missing results %s for %d batches" % (sorted(rfiles), B), dict(sig, step="grow"))
        ctx.rmtree(root)
        return
    for i, p in rfiles.items():
        shutil.move(p, os.path.join(stash, os.path.basename(p)))

    if case["idx"] % 4 == 1:
        # the batch files carry LATER timestamps than the results (sown on a machine whose clock runs ahead, copied or
        # touched by a sync tool, an identical re-sow after growing): a batch is finished iff its result file exists
        later = time.time() + 3600
        for p in files.values():
            os.utime(p, (later, later))
        ctx.count("crops_whose_batch_files_are_newer_than_the_results")
    req = cropkit.requested_settings(w)
    swept = (w["names"] or []) + [a for a, _ in w["combos"]]
    if case.get("sample_subsets") and B > 10:
        # (2**B subsets cannot be listed: draw the sample directly)
        srng = ctx.rng("subsets", case.get("sseed", 0))
        subsets = []
        while len(subsets) < case["sample_subsets"]:
            S_ = tuple(sorted(srng.sample(range(1, B + 1), srng.randint(1, B - 1))))
            if S_ not in subsets:
                subsets.append(S_)
    else:
        subsets = [s for r in range(1, B) for s in itertools.combinations(range(1, B + 1), r)]
        if case.get("sample_subsets") and len(subsets) > case["sample_subsets"]:
            subsets = ctx.rng("subsets", case.get("sseed", 0)).sample(subsets, case["sample_subsets"])

    def present(S):
        for i in range(1, B + 1):
            src = os.path.join(stash, "xyz-result-%d.jbdmp" % i)
            dst = os.path.join(loc, "results", "xyz-result-%d.jbdmp" % i)
            if i in S and not os.path.exists(dst):
                shutil.copy(src, dst)
            elif i not in S and os.path.exists(dst):
                os.remove(dst)

    def do_reap(c, **kw):
        if form == "to_ds":
            return c.reap_combos_to_ds(var_names=var_names, var_dims=var_dims, var_coords=var_coords, **kw)
        if form == "to_df":
            return c.reap_combos_to_ds(var_names=var_names, to_df=True, **kw)
        return c.reap(**kw)

    nviol = 0
    debris = []
    for S in subsets:
        S = set(S)
        present(S)
        subcase = dict(case, subset=sorted(S))
        # leftovers of failed writes: a grow of an unfinished batch died while writing its result (disk full, result not
        # picklable, worker killed), done with the crop's own writer so that the leftover is named as the real code names
        # it.  Such a batch is still unfinished: its debris must change nothing about partial reaps and refusals.
        for fdeb in debris:
            if os.path.exists(fdeb):
                os.remove(fdeb)
        del debris[:]
        if (case["idx"] + len(S) + min(S)) % 3 == 0:
            from xyzpy.gen import cropping as _cr
            unfinished = sorted(set(range(1, B + 1)) - S)
            listing0 = set(os.listdir(os.path.join(loc, "results")))
            for i in unfinished[:1 + (case["idx"] % 2)]:
                try:
                    _cr.write_to_disk(_Unwritable(), os.path.join(loc, "results", "xyz-result-%d.jbdmp" % i))
                except OSError:
                    pass
            for f in set(os.listdir(os.path.join(loc, "results"))) - listing0:
                debris.append(os.path.join(loc, "results", f))
            bad_final = [f for f in debris if os.path.basename(f) in ("xyz-result-%d.jbdmp" % i for i in unfinished)]
            if bad_final:
                ctx.violation(subcase, "a failed result write left a file under the final name: %s" % bad_final, dict(sig, oracle="failed-write-invisible"))
                nviol += 1
                break
            subcase["debris"] = [os.path.basename(f) for f in debris]
            ctx.count("subsets_with_failed_write_leftovers")
        before = cropkit.tree_snapshot(loc)
        # --- refused without allow_incomplete, untouched ---
        try:
            with quiet():
                c = xyzpy.Crop(name=name, parent_dir=tmp) if form not in ("runner_ds", "harvester_ds") and not nosave else crop
                do_reap(c)
            ctx.violation(subcase, "incomplete crop (finished %s of %d) was reaped without allow_incomplete" % (sorted(S), B),
                          dict(sig, oracle="refusal"))
            nviol += 1
        except XYZError:
            pass
        except Exception as e:
            ctx.violation(subcase, "plain reap of an incomplete crop raised %r instead of XYZError" % (e,),
                          dict(sig, oracle="refusal", **exc_sig(e)))
            nviol += 1
        ctx.count("refusals_checked")
        if cropkit.tree_snapshot(loc) != before:
            ctx.violation(subcase, "refused reap modified the crop directory", dict(sig, oracle="refusal-untouched"))
            nviol += 1
            break
        # --- partial reap ---
        try:
            with quiet():
                if nosave:
                    c = xyzpy.Crop(name=name, parent_dir=tmp, autoload=False)
                else:
                    c = xyzpy.Crop(name=name, parent_dir=tmp) if form not in ("runner_ds", "harvester_ds") else crop
                if early is not None:
                    c = early
                racing = form == "harvester_ds" and (case["idx"] + len(S)) % 2 == 0
                if racing:
                    # another worker finishes every remaining batch while the partial results are being merged: what was
                    # returned as missing stays missing in THIS result, and nothing may be deleted
                    orig_add = c.farmer.add_ds

                    def add_then_finish(*a_, **k_):
                        r_ = orig_add(*a_, **k_)
                        present(set(range(1, B + 1)))
                        return r_
                    c.farmer.add_ds = add_then_finish
                    ctx.count("partial_reaps_racing_with_the_last_grower")
                pkw = {}
                if form == "harvester_ds" and not racing and (case["idx"] + len(S)) % 4 == 1:
                    # a look at the finished part without merging the nan-padded data into the harvester's dataset
                    pkw["sync"] = False
                    ctx.count("partial_reaps_of_a_harvester_crop_without_sync")
                try:
                    if (case["idx"] + len(S)) % 5 == 0:
                        # the reaping program turns warnings into errors (python -W error, pytest filterwarnings=error)
                        import warnings
                        with warnings.catch_warnings():
                            warnings.simplefilter("error")
                            res = do_reap(c, allow_incomplete=True, **pkw)
                        ctx.count("partial_reaps_with_warnings_turned_into_errors")
                    else:
                        res = do_reap(c, allow_incomplete=True, **pkw)
                finally:
                    if racing:
                        del c.farmer.add_ds
        except Exception as e:
            ctx.violation(subcase, "reap(allow_incomplete=True) with finished batches %s of %d raised %r" % (sorted(S), B, e),
                          dict(sig, oracle="partial-reap", **exc_sig(e)))
            nviol += 1
            ctx.observe(subcase, key=(case["idx"], tuple(sorted(S))), info={"raised": repr(e)[:100]})
            if nviol > 3:
                break
            continue
        ctx.count("partial_reaps")
        after_ = cropkit.tree_snapshot(loc)
        if racing:
            if after_ is None or any(k not in after_ or after_[k] != v for k, v in before.items()):
                ctx.violation(subcase, "partial reap deleted crop files (the last batches were finished by another worker while it merged)",
                              dict(sig, oracle="nothing-deleted"))
                nviol += 1
                break
        elif after_ != before:
            ctx.violation(subcase, "partial reap deleted or changed crop files (default clean_up must keep everything)",
                          dict(sig, oracle="nothing-deleted"))
            nviol += 1
            break
        finished = lambda p: batch_of[probe.canon({**p, **constants})] in S     # noqa: E731
        bad = None
        nmiss = 0
        if form == "raw":
            # reference: same workload, but positions of unfinished batches are "un-requested"
            real = probe.make(kind, {**req[0], **constants})
            for combos_sorted in (True, False):
                axes = cropkit.axes_of(w, combos_sorted)
                bad = None
                nmiss = 0
                wanted = {tuple(probe._cv(p[a]) for a in swept) for p in req}
                try:
                    for p in refmodel.grid_points(axes):
                        idx = tuple(axes[i][1].index(p[axes[i][0]]) for i in range(len(axes)))
                        got = refmodel.nest_get(res, idx)
                        isreq = tuple(probe._cv(p[a]) for a in swept) in wanted
                        if isreq and finished(p):
                            d = refmodel.deep_eq(got, probe.make(kind, {**p, **constants}))
                            if d:
                                bad = "position %s of finished batch: %s" % (p, d)
                                break
                        else:
                            nmiss += 1
                            if not refmodel.is_missing_like(got, real):
                                bad = "position %s (batch not finished / not requested) holds %s" % (p, refmodel._short(got))
                                break
                except (IndexError, TypeError) as e:
                    bad = "nest does not span the grid: %r" % (e,)
                if bad is None:
                    break
        elif form in ("runner_ds", "to_ds", "harvester_ds"):
            import xarray as xr
            ds = res
            if not isinstance(ds, xr.Dataset):
                bad = "expected a Dataset, got %s" % type(ds).__name__
            else:
                axes = cropkit.axes_of(w, True)
                wanted = {tuple(probe._cv(p[a]) for a in swept) for p in req}
                for p in refmodel.grid_points(axes):
                    try:
                        sel = ds.sel(p)
                    except Exception as e:
                        bad = "ds.sel(%s) failed: %r" % (p, e)
                        break
                    isreq = tuple(probe._cv(p[a]) for a in swept) in wanted
                    if isreq and finished(p):
                        exp = _outputs(kind, probe.make(kind, {**p, **constants}))
                        for vn, ev in exp.items():
                            got = sel[vn].values
                            d = refmodel.deep_eq(got if np.ndim(got) else got.item(), ev)
                            if d:
                                bad = "ds.sel(%s)[%s] of a finished batch: %s" % (p, vn, d)
                                break
                    else:
                        nmiss += 1
                        for vn in ds.data_vars:
                            if not all(refmodel.is_null_leaf(l) for l in refmodel.leaves(sel[vn].values)):
                                bad = "ds.sel(%s)[%s] holds data although its batch is not finished" % (p, vn)
                                break
                    if bad:
                        break
                if form == "runner_ds" and bad is None and crop.farmer.last_ds is not res:
                    bad = "Runner.last_ds is not the reaped dataset"
        else:  # to_df
            df = res
            rows = df.to_dict("records")
            if len(rows) != len(req):
                bad = "%d rows for %d settings" % (len(rows), len(req))
            else:
                seen = set()
                for row in rows:
                    p = {a: row[a] for a in swept}
                    seen.add(tuple(probe._cv(p[a]) for a in swept))
                    outs = [c for c in (["y", "z"] if kind.startswith("multi") else ["y"])]
                    if finished(p):
                        exp = _outputs(kind, probe.make(kind, {**p, **constants}))
                        for vn in outs:
                            d = refmodel.deep_eq(row[vn], exp[vn])
                            if d:
                                bad = "row %s of a finished batch: %s" % (p, d)
                    else:
                        nmiss += 1
                        for vn in outs:
                            if not all(refmodel.is_null_leaf(l) for l in refmodel.leaves(row[vn])):
                                bad = "row %s carries %s=%r although its batch is not finished" % (p, vn, row[vn])
                            elif not bool(df[vn].isnull()[rows.index(row)]):
                                # in a table 'missing' is what the table itself calls missing (isnull / dropna / count)
                                bad = "row %s of an unfinished batch holds %s=%r (%s), which the table does not count as missing" % (
                                    p, vn, row[vn], type(row[vn]).__name__)
                    if bad:
                        break
                if not bad and len(seen) != len(req):
                    bad = "rows do not cover the settings once each"
        ctx.count("missing_positions_checked", nmiss)
        if bad:
            ctx.violation(subcase, "finished batches %s of %d: %s" % (sorted(S), B, bad), dict(sig, oracle="partial-values"))
            nviol += 1
        ctx.observe(subcase, key=(case["idx"], case["n"], case.get("batchsize"), case.get("num_batches"), case["shuffle"],
                                  form, kind, tuple(sorted(S))),
                    info={"N": case["n"], "batches": B, "finished": sorted(S), "missing_positions": nmiss})
        if nviol > 3:
            break

    # --- grow the rest from the last partial state, full reap is exact and cleans up ---
    if nviol == 0 and subsets:
        try:
            with quiet():
                c = xyzpy.Crop(name=name, parent_dir=tmp) if form not in ("runner_ds", "harvester_ds") and not nosave else crop
                if nosave:
                    for i_ in c.missing_results():
                        _grow(i_, crop=c, fn=fn, verbosity=0)
                else:
                    c.grow_missing()
                res = do_reap(c)
            bad = None
            if form == "raw":
                bad, _ = cropkit.compare_nest(res, w, constants, kind)
            elif form in ("runner_ds", "to_ds", "harvester_ds"):
                for p in req:
                    exp = _outputs(kind, probe.make(kind, {**p, **constants}))
                    for vn, ev in exp.items():
                        got = res.sel(p)[vn].values
                        d = refmodel.deep_eq(got if np.ndim(got) else got.item(), ev)
                        if d:
                            bad = "full reap, ds.sel(%s)[%s]: %s" % (p, vn, d)
            else:
                for row in res.to_dict("records"):
                    p = {a: row[a] for a in swept}
                    exp = _outputs(kind, probe.make(kind, {**p, **constants}))
                    for vn, ev in exp.items():
                        if refmodel.deep_eq(row[vn], ev):
                            bad = "full reap, row %s: %s" % (p, vn)
            if bad:
                ctx.violation(case, "after growing the rest the full reap is not exact: %s" % bad, dict(sig, oracle="full-after-partial"))
            ctx.count("full_reaps_after_partial")
        except Exception as e:
            ctx.violation(case, "grow_missing + full reap after partial reaps raised %r" % (e,),
                          dict(sig, oracle="full-after-partial", **exc_sig(e)))
    ctx.rmtree(root)
