"""C02 -- sparse cases run only what was asked and leave every other slot missing.

Events: probe call log; value returned by combo_runner(cases=...) / case_runner.
Oracle: log == requested settings (cases x sub-grid) exactly once; axes == sorted union of
the case values per case argument, then the sub-grid values in given order; requested
positions hold the encoded value, every other position is an all-null placeholder with the
real result's shape; flat results are in request order; an argument in both cases and
combos raises and nothing is called.
"""
from collections import Counter

from .. import gens, probe, refmodel
from ..common import quiet, exc_sig

PID = "C02"
LEVEL = "exploration"
TECHNIQUE = ("runtime monitoring: call-log exactly-once/never-else monitor + per-slot oracle "
             "(encoded value or all-null placeholder of the right shape) against a sparse reference grid")
RULE = ("seeded case sets (1-4 case args, 1-8 distinct cases sharing coordinates, dict/tuple/single-dict "
        "spelling, keys in varying order; argument values incl. bool/numpy scalars/odd strings, and one argument mixing numbers and strings whose union cannot be sorted) given as list / tuple / iterator / generator / zip; overlap requests in dict and positional spelling) x optional sub-grids x result kinds (int/float/bool/str/complex/tuple/"
        "nested list/ndarray/mixed/dict/Dataset/DataArray) x shuffle x flat x split x entry point "
        "(combo_runner, case_runner, Runner.run_cases and Harvester.harvest_cases with the argument names of positional cases given to the Runner, sub-grids as mappings); a diagonal case set for every result kind; results holding empty sequences; cases as non-dict mappings; argument names read off plain / keyword-only / decorated functions; the caller's case dicts compared after the call; distinct by (case-set shape, union sizes, sub-grid shape, kind, options), "
        "non-trivial when at least one slot of the grid is un-requested or >= 2 settings run")
ASSUMPTIONS = [
    "a 'missing' slot is judged by: every leaf is NaN or None and np.shape equals the real result's (the spelling NaN vs None is not judged)",
    "case values per argument are homogeneous (sortable); unsortable unions have no specified order and are not generated",
]
SHARDS = {"quick": 4, "thorough": 16}
MIN_REACH = {
    "calls_logged": {"quick": 2000, "thorough": 60000},
    "missing_slots_checked": {"quick": 1200, "thorough": 40000},
    "unsortable_axes_judged": {"quick": 5, "thorough": 300},
    "long_case_sets_crossed_with_a_sub_grid": {"quick": 4, "thorough": 16},
    "positional_cases_named_by_the_function_signature": {"quick": 12, "thorough": 250},
    "case_sets_given_as_mappings_that_are_not_dicts": {"quick": 25, "thorough": 500},
    "callers_case_dicts_compared": {"quick": 80, "thorough": 1500},
    "rejections_checked": {"quick": 20, "thorough": 150},
    "case_sets_given_as_one_shot_iterators": {"quick": 100, "thorough": 2000},
    "rejections_checked_with_positional_cases": {"quick": 5, "thorough": 40},
    "case_sets_run_through_a_runner_or_harvester": {"quick": 80, "thorough": 1500},
    "plain_case_runs_after_a_run_with_a_sub_grid": {"quick": 10, "thorough": 200},
}
TIME_BUDGET = {"quick": 300, "thorough": 3000}

KINDS = ["int", "float", "bool", "npbool", "npbool", "str", "complex", "tuple:2", "tuple:3", "list:2", "list:2x3", "array:3",
         "array:2x2", "mixed", "dict:2", "dataset:3", "dataarray:2", "multi:s,b,t", "iarray:3", "barray:2", "iarray:2x2", "emptyseq"]
SPLIT_KINDS = ["tuple:2", "tuple:3", "multi:s,b,t", "multi:s,a2,l2x2", "mixed"]


def cases(ctx):
    rng = ctx.rng("cases")
    for i in range(ctx.pick(640, 12000)):
        names, cs = gens.gen_cases(rng, exotic=True, unsortable=0.1)
        sub = []
        if rng.random() < 0.45:
            free = [a for a in gens.ARG_POOL if a not in names]
            sub = gens.gen_combos(rng, nargs=(1, 2), nvals=(1, 3), names=rng.sample(free, 2))
        entry = rng.choice(["combo_runner", "combo_runner", "case_runner", "case_runner", "runner_cases", "harvester_cases"])
        split = rng.random() < 0.25
        flat = (entry == "case_runner") or rng.random() < 0.2
        kind = rng.choice(SPLIT_KINDS if split else KINDS)
        spelling = rng.choice(["dict", "dict", "tuple"]) if entry == "case_runner" else "dict"
        if entry in ("runner_cases", "harvester_cases") and any(
                len({isinstance(c[a], str) for c in cs}) > 1 or any(isinstance(c[a], tuple) for c in cs) for a in names):
            flat = True
            entry = "case_runner"       # (labels mixing numbers and text, or tuples, cannot label a Dataset axis as they are)
        if entry in ("runner_cases", "harvester_cases"):
            # Runner.run_cases / Harvester.harvest_cases: the argument names of positional cases are those the Runner was
            # built with (fn_args=), in that order; the result is a Dataset
            split, flat, kind = False, False, rng.choice(["int", "float"])
            spelling = rng.choice(["dict", "tuple", "tuple"])
        c = {
            "entry": entry, "names": names, "cases": cs, "sub": sub, "kind": kind,
            "split": split, "flat": flat, "spelling": spelling,
            "shuffle": gens.gen_shuffle(rng),
            "constants": gens.gen_constants(rng, 2, exclude=names + [a for a, _ in sub]),
            "keyorder_seed": rng.randint(0, 10 ** 6),
            "single_dict": len(cs) == 1 and rng.random() < 0.5,
            # the container the cases arrive in: the documentation says "iterable"
            "cases_as": rng.choice(["list", "list", "tuple", "iter", "generator", "zip"]),
        }
        yield c
    # every kind of result on a case set that certainly leaves slots un-requested (the diagonal of a 3 x 3 grid), through
    # both entry points: the placeholder of each kind is judged whatever the random draws above happened to cover
    for k_, kind_ in enumerate(KINDS):
        for entry_ in ("combo_runner", "case_runner"):
            yield {"entry": entry_, "names": ["p", "q"], "cases": [{"p": j, "q": 10 * j} for j in range(3)], "sub": [], "kind": kind_,
                   "split": False, "flat": entry_ == "case_runner", "spelling": "dict", "shuffle": [False, True][k_ % 2], "constants": {},
                   "keyorder_seed": k_, "single_dict": False, "cases_as": "list", "diag": True}
    # LONG case lists crossed with a sub-grid (600-1300 settings), sequentially and through a pool of threads: whatever
    # windowing a run strategy applies to long task lists, every requested slot gets its own result
    for i in range(ctx.pick(6, 24)):
        ncase = [40, 75, 33, 81][i % 4]
        cs = [{"p": j, "q": (j * 7) % 11} for j in range(ncase)]
        sub = [["a", [0, 1, 2, 3]], ["b", [5, 6, 7, 8][:2 + i % 3]]]
        entry = ["combo_runner", "case_runner"][i % 2]
        yield {"entry": entry, "names": ["p", "q"], "cases": cs, "sub": sub, "kind": "int", "split": False, "flat": entry == "case_runner",
               "spelling": "dict", "shuffle": [False, True, 7][i % 3], "constants": {}, "keyorder_seed": i, "single_dict": False,
               "cases_as": "list", "pool": i % 3 != 2, "long": True}
    # overlap between case arguments and sub-grid arguments must be refused before any call
    for i in range(ctx.pick(40, 300)):
        names, cs = gens.gen_cases(rng, nargs=(1, 3))
        a = rng.choice(names)
        sub = [[a, gens.gen_values(rng, 2, "int")]]
        if rng.random() < 0.5:
            other = [x for x in gens.ARG_POOL if x not in names]
            sub.insert(rng.randrange(2), [rng.choice(other), [1, 2]])
        entry = rng.choice(["combo_runner", "case_runner", "case_runner"])
        yield {"entry": entry, "names": names, "cases": cs, "sub": sub,
               "kind": "int", "split": False, "flat": False, "spelling": rng.choice(["dict", "tuple"]) if entry == "case_runner" else "dict", "shuffle": False,
               "constants": {}, "keyorder_seed": 0, "single_dict": False, "expect": "overlap"}


def run_case(ctx, case):
    import xyzpy
    rng = ctx.rng("keyorder", case["keyorder_seed"])
    names = list(case["names"])
    cs = [dict(c) for c in case["cases"]]
    sub = [(a, list(v)) for a, v in case["sub"]]
    constants = dict(case["constants"])
    kind = case["kind"]

    # dict cases may list their keys in any order; the first case fixes the axis order
    spelled_cases = []
    for i, c in enumerate(cs):
        ks = list(names)
        if i > 0:
            rng.shuffle(ks)
        spelled_cases.append({k: c[k] for k in ks})
    fn_args = None
    if case["spelling"] == "tuple":
        spelled_cases = [tuple(c[a] for a in names) for c in cs]
        fn_args = tuple(names)
        if len(names) == 1 and case["keyorder_seed"] % 2:
            spelled_cases = [c[names[0]] for c in cs]      # bare scalars for a single argument
            fn_args = names[0]
    elif case.get("single_dict"):
        spelled_cases = spelled_cases[0]
    elif case["keyorder_seed"] % 5 == 2:
        # each case is a mapping that is not a dict (a read-only view of the caller's dict, an OrderedDict)
        import collections
        import types
        spelled_cases = [types.MappingProxyType(c) if k_ % 2 == 0 else collections.OrderedDict(c) for k_, c in enumerate(spelled_cases)]
        ctx.count("case_sets_given_as_mappings_that_are_not_dicts")

    how = case.get("cases_as", "list")
    if isinstance(spelled_cases, list) and how != "list":
        if how == "tuple":
            spelled_cases = tuple(spelled_cases)
        elif how == "iter":
            spelled_cases = iter(spelled_cases)
        elif how == "generator":
            spelled_cases = (c for c in list(spelled_cases))
        elif how == "zip" and fn_args is not None and isinstance(fn_args, tuple) and len(fn_args) >= 2:
            spelled_cases = zip(*[[c[i] for c in spelled_cases] for i in range(len(fn_args))])
        else:
            spelled_cases = iter(spelled_cases)
        if how != "tuple":
            ctx.count("case_sets_given_as_one_shot_iterators")
    loglist = []
    fn = probe.Probe(kind, loglist=loglist)
    allnames_ = list(names) + [a for a, _ in sub] + list(constants)
    if (isinstance(fn_args, tuple) and len(fn_args) >= 2 and case["keyorder_seed"] % 3 != 0 and not sub
            and all(isinstance(a, str) and a.isidentifier() for a in allnames_) and len(set(allnames_)) == len(allnames_)):
        # the argument names are NOT given: they are read off the function, a plain def whose last case argument (and
        # everything after it) is keyword-only - def f(p, *, q, a=.., kc=..) - or a functools.wraps-decorated one
        kwo_ = len(allnames_) - len(names) + 1
        fn = probe.make_fn(allnames_, kind=kind, loglist=loglist, kwonly=kwo_ if case["keyorder_seed"] % 2 else 0,
                           wrapped=case["keyorder_seed"] % 4 >= 2)
        fn_args = None
        ctx.count("positional_cases_named_by_the_function_signature")
    opts = {"split": case["split"], "shuffle": case["shuffle"], "verbosity": 0}
    if constants:
        opts["constants"] = constants
    combos_arg = gens.spell_combos(sub, "dict") if sub else None

    import copy as _copy
    given_cases_before = _copy.deepcopy(spelled_cases) if isinstance(spelled_cases, list) and spelled_cases and isinstance(spelled_cases[0], dict) else None
    result, err = None, None
    pool_ = None
    if case.get("long"):
        ctx.count("long_case_sets_crossed_with_a_sub_grid")
    if case.get("pool"):
        from concurrent.futures import ThreadPoolExecutor
        pool_ = ThreadPoolExecutor(3)
        opts["executor"] = pool_
    try:
        with quiet():
            if case["entry"] in ("runner_cases", "harvester_cases"):
                rn = xyzpy.Runner(fn, var_names="out", fn_args=fn_args, constants=constants or None)
                kw = {"verbosity": 0}
                if case["shuffle"]:
                    kw["shuffle"] = case["shuffle"]
                if combos_arg is not None:
                    kw["combos"] = combos_arg
                if case["entry"] == "runner_cases":
                    result = rn.run_cases(spelled_cases, **kw)
                else:
                    hv = xyzpy.Harvester(rn, data_name=None)
                    hv.harvest_cases(spelled_cases, sync=False, **kw)
                    result = hv.last_ds
                ctx.count("case_sets_run_through_a_runner_or_harvester")
            elif case["entry"] == "combo_runner":
                result = xyzpy.combo_runner(fn, combos_arg, cases=spelled_cases, flat=case["flat"], **opts)
            else:
                result = xyzpy.case_runner(fn, fn_args, spelled_cases, combos=combos_arg, **opts)
    except Exception as e:
        err = e
    finally:
        if pool_ is not None:
            pool_.shutdown(wait=True)
    if given_cases_before is not None:
        # the caller's own case dicts are the caller's: the same list can be handed over again
        ctx.count("callers_case_dicts_compared")
        if spelled_cases != given_cases_before or [list(c) for c in spelled_cases] != [list(c) for c in given_cases_before]:
            ctx.violation(case, "the caller's case dicts were modified by the call: %r -> %r" % (given_cases_before[:2], spelled_cases[:2]),
                          {"api": case["entry"], "oracle": "inputs-untouched"})
    logged = [r["k"] for r in loglist]
    ctx.count("calls_logged", len(logged))
    sig0 = {"api": case["entry"], "kind": kind.split(":")[0], "split": case["split"], "flat": case["flat"],
            "shuffle": bool(case["shuffle"]), "sub": bool(sub)}

    if case.get("expect") == "overlap":
        ctx.count("rejections_checked")
        if case["spelling"] == "tuple":
            ctx.count("rejections_checked_with_positional_cases")
        ctx.check(err is not None and not logged, case,
                  "argument in both cases and combos not refused before running: err=%r calls=%d" % (err, len(logged)),
                  dict(sig0, oracle="overlap-rejected"))
        ctx.observe(case, key=("overlap", len(names), len(sub)), info={"raised": repr(err)[:100]})
        return
    if err is not None:
        ctx.violation(case, "%s raised %r" % (case["entry"], err), dict(sig0, oracle="no-exception", **exc_sig(err)))
        ctx.observe(case, nontrivial=False)
        return

    sub_points = list(refmodel.grid_points(sub)) if sub else [{}]
    requested = [{**c, **sp} for c in cs for sp in sub_points]
    req_keys = [probe.canon({**p, **constants}) for p in requested]

    # ---- exactly the requested settings, once each, never anything else ----
    if sorted(logged) != sorted(req_keys):
        cg = Counter(logged)
        ctx.violation(case, "call log != requested settings: %d calls for %d requests; un-requested=%s missing=%s dup=%s" % (
            len(logged), len(req_keys), [k for k in cg if k not in set(req_keys)][:3],
            [k for k in req_keys if k not in cg][:3], [k for k, n in cg.items() if n > 1][:3]),
            dict(sig0, oracle="exactly-requested"))

    def leaf(p):
        return probe.make(kind, {**p, **constants})

    real0 = leaf(requested[0])
    nout = len(real0) if case["split"] else None

    def judge(res, sel):
        """Compare one (possibly per-output) result structure."""
        f = leaf if sel is None else (lambda p: leaf(p)[sel])
        if case["flat"]:
            return refmodel.deep_eq(res, tuple(f(p) for p in requested))
        # an argument whose union of values cannot be sorted has no specified axis order: every order is tried and
        # the nest must be consistent with at least one (the values are injective, so no wrong placement fits any)
        import itertools
        cands = []
        for a in names:
            try:
                cands.append([refmodel.sorted_union(c[a] for c in cs)])
            except TypeError:
                u = refmodel.plain_union(c[a] for c in cs)
                cands.append([list(p) for p in itertools.permutations(u)])
                ctx.count("unsortable_axes_judged")
        first = None
        for orders in itertools.product(*cands):
            d = judge_axes(res, f, [(a, o) for a, o in zip(names, orders)] + sub, count=first is None)
            if d is None:
                return None
            first = first or d
        return first

    def judge_axes(res, f, axes, count=True):
        wanted = {tuple(probe._cv(c[a]) for a in names) for c in cs}
        real = f(requested[0])
        bad = []
        nmiss = 0

        def slot(p):
            nonlocal nmiss
            idx = tuple(axes[i][1].index(p[axes[i][0]]) for i in range(len(axes)))
            try:
                got = refmodel.nest_get(res, idx)
            except Exception as e:
                bad.append("slot %s unreachable: %r" % (p, e))
                return None
            if tuple(probe._cv(p[a]) for a in names) in wanted:
                d = refmodel.deep_eq(got, f(p))
                if d:
                    bad.append("requested slot %s: %s" % (p, d))
            else:
                nmiss += 1
                if not refmodel.is_missing_like(got, real):
                    bad.append("un-requested slot %s holds %r (real results look like %r)" % (
                        p, refmodel._short(got), refmodel._short(real)))
                elif isinstance(real, (bool, str, __import__("numpy").bool_)) and got is not None:
                    # an output that is itself a bool / str: the statement names None as its placeholder (a NaN there
                    # turns into the non-missing text 'nan' as soon as the values are put into an array of strings)
                    bad.append("un-requested slot %s of a %s output holds %r, the placeholder for bool/str is None" % (
                        p, type(real).__name__, refmodel._short(got)))
            return None

        # shape of the nest itself
        def shape_ok(r, i):
            if i == len(axes):
                return True
            if not isinstance(r, (tuple, list)) or len(r) != len(axes[i][1]):
                return False
            return all(shape_ok(x, i + 1) for x in r)
        if not shape_ok(res, 0):
            return "nest does not span the sorted union of case values x sub-grid: expected axes %s" % (
                [(a, len(v)) for a, v in axes],)
        for p in refmodel.grid_points(axes):
            slot(p)
        if count:
            ctx.count("missing_slots_checked", nmiss)
        return bad[0] if bad else None

    if case["entry"] in ("runner_cases", "harvester_cases"):
        import numpy as np
        dsb = []
        try:
            wanted = {tuple(probe._cv(c[a]) for a in names) for c in cs}
            axes = [(a, result[a].values.tolist()) for a in names] + [(a, list(v)) for a, v in sub]
            for a, vals in axes:
                want_u = refmodel.plain_union(c[a] for c in cs) if a in names else dict(sub)[a]
                if sorted(map(repr, map(probe._cv, vals))) != sorted(map(repr, map(probe._cv, want_u))):
                    dsb.append("coordinate %s holds %s, requested values %s" % (a, vals, want_u))
            nmiss = 0
            for pt in ([] if dsb else refmodel.grid_points(axes)):
                got = result["out"].sel({a: pt[a] for a, _ in axes}).values
                if tuple(probe._cv(pt[a]) for a in names) in wanted:
                    d = refmodel.deep_eq(got.item(), leaf(pt))
                    if d:
                        dsb.append("requested location %s: %s" % (pt, d))
                        break
                else:
                    nmiss += 1
                    if not (got != got):
                        dsb.append("un-requested location %s holds %r" % (pt, got))
                        break
            ctx.count("missing_slots_checked", nmiss)
        except Exception as e:
            dsb.append("judging the dataset raised %r" % (e,))
        for d in dsb[:1]:
            ctx.violation(case, d, dict(sig0, oracle="placement"))
        if sub and not dsb and case["entry"] == "runner_cases":       # (a Harvester would merge the lower-dimensional result into its dataset)
            # the same Runner asked for one plain case afterwards: the sub-grid given to the EARLIER call was that call's
            try:
                n0 = len(loglist)
                with quiet():
                    ds2 = rn.run_cases([dict(cs[0])], verbosity=0) if case["entry"] == "runner_cases" else None
                    if ds2 is None:
                        hv.harvest_cases([dict(cs[0])], sync=False, verbosity=0)
                        ds2 = hv.last_ds
                ctx.count("plain_case_runs_after_a_run_with_a_sub_grid")
                later = [r["k"] for r in loglist[n0:]]
                if later != [probe.canon({**cs[0], **constants})]:
                    ctx.violation(case, "a later plain run_cases([one case]) on the same Runner called the function %d times (%s): the sub-grid of the earlier call stuck to the Runner" % (
                        len(later), later[:3]), dict(sig0, oracle="exactly-requested"))
                elif any(a in ds2.dims for a, _ in sub):
                    ctx.violation(case, "a later plain run on the same Runner still spans the earlier call's sub-grid: dims %s" % (list(ds2.dims),),
                                  dict(sig0, oracle="placement"))
            except Exception as e:
                ctx.violation(case, "a later plain run_cases on the same Runner raised %r" % (e,), dict(sig0, oracle="no-exception", **exc_sig(e)))
    elif case["split"]:
        if not isinstance(result, tuple) or len(result) != nout:
            ctx.violation(case, "split result is not a %d-tuple: %s" % (nout, refmodel._short(result)),
                          dict(sig0, oracle="placement"))
        else:
            for j in range(nout):
                d = judge(result[j], j)
                if d:
                    ctx.violation(case, "output %d: %s" % (j, d), dict(sig0, oracle="placement"))
                    break
    else:
        d = judge(result, None)
        if d:
            ctx.violation(case, d, dict(sig0, oracle="placement"))

    unions = [len(refmodel.plain_union(c[a] for c in cs)) for a in names]
    total = 1
    for u in unions:
        total *= u
    ctx.observe(case, key=(len(names), len(cs), unions, [len(v) for _, v in sub], kind, case["split"], case["flat"],
                           bool(case["shuffle"]), case["entry"], case["spelling"]),
                nontrivial=(total > len(cs)) or len(requested) >= 2,
                info={"calls": len(logged), "requested": len(requested), "grid_slots": total * len(sub_points),
                      "unrequested_slots": (total - len(cs)) * len(sub_points)})
