"""C08 -- reported progress always matches the batches that really finished.

Events: the operation history; a recording wrapper on xyzpy.gen.cropping.grow (batch id,
returned or raised) as the ground truth of "a grow of it completed successfully"; after
every operation the four progress queries, the parsed str(crop) and the real listing of
results/; the probe call log (what grow_missing really evaluated).
Oracle: a small model (set of finished batches) predicts all of them.
"""
import os
import re
import pickle
from collections import Counter

from .. import gens, probe, cropkit
from ..common import quiet, exc_sig

PID = "C08"
LEVEL = "exploration"
TECHNIQUE = ("runtime monitoring of operation histories: recording wrapper on the real grow(), progress queries and "
             "directory listings after every step, checked online against a finished-set model")
RULE = ("seeded histories (<= 12 operations after the first sow) over {re-sow same shape, grow i, Crop.grow(subset), "
        "grow_missing, grow with a function told to fail on a chosen setting (raising ProbeFailure/KeyError/ZeroDivisionError/StopIteration/StopAsyncIteration), grow returning an unwritable result, grows as MPI rank 0, more batches requested than settings, reloads by the same constructor call, delete result i, corrupt/truncate/"
        "wrong-length result + check_bad, reload Crop, query} on crops of 1-8 batches (1-20 settings, grids and case "
        "lists, size/count batching, shuffle); pooled grows around a re-sow that replaces the function; crops whose function is not saved (save_fn=False) queried through handles without it; crops of 10-14 batches; subsets given as generators / numpy arrays, a returned grow must have grown what it was asked for; check_bad must return ints; every post-operation state is one judged observation; distinct by "
        "(shape, history prefix); non-trivial when the crop has >= 2 batches")
ASSUMPTIONS = [
    "progress is judged from the first sow on (before it the crop reports -1 / not prepared)",
    "tampering (deleting or corrupting a result file) is an external event: corruptions are immediately followed by check_bad, "
    "which must remove exactly the bad results; a deleted result simply becomes missing again",
]
SHARDS = {"quick": 6, "thorough": 16}
RULE += '; a fifth of the subset grows ask for an empty subset; every single / subset grow grows only what it was asked for'
MIN_REACH = {
    "states_judged": {"quick": 1500, "thorough": 30000},
    "grow_events_recorded": {"quick": 1200, "thorough": 25000},
    "failed_grows": {"quick": 40, "thorough": 800},
    "crops_made_without_parent_dir_then_chdir": {"quick": 25, "thorough": 500},
    "grows_as_mpi_rank_0": {"quick": 60, "thorough": 1200},
    "reloads_by_same_constructor_call": {"quick": 30, "thorough": 600},
    "failed_grows_iteration_protocol_exception": {"quick": 15, "thorough": 250},
    "check_bad_calls": {"quick": 40, "thorough": 800},
    "unwritable_results": {"quick": 40, "thorough": 800},
    "resows": {"quick": 40, "thorough": 800},
    "failed_grows_with_workers_inside_the_batch": {"quick": 15, "thorough": 150},
    "crops_whose_path_contains_pattern_characters": {"quick": 20, "thorough": 200},
    "reloads_through_load_crops": {"quick": 10, "thorough": 100},
    "resows_refused_for_their_shape": {"quick": 50, "thorough": 600},
    "crops_whose_function_is_not_saved": {"quick": 12, "thorough": 300},
    "crops_of_ten_and_more_batches": {"quick": 15, "thorough": 300},
    "subsets_grown_from_a_generator_or_an_array_of_ids": {"quick": 30, "thorough": 800},
    "empty_subsets_grown": {"quick": 15, "thorough": 200},
    "pooled_grows_around_a_resow_that_replaced_the_function": {"quick": 12, "thorough": 200},
}
TIME_BUDGET = {"quick": 300, "thorough": 3000}

OPS = ["grow", "grow", "grow_subset", "grow_missing", "grow_fail", "delete", "corrupt_check", "resow", "reload", "query",
       "grow_fn", "grow_unpicklable", "resow_refused"]


def _is_injected(err):
    """The exception the function was told to raise, or one chained from it (a StopIteration leaving a generator
    becomes RuntimeError by the language's own rules)."""
    seen = 0
    while err is not None and seen < 5:
        if isinstance(err, tuple(probe.FAIL_EXCS.values())) and "probe told to fail" in str(err):
            return True
        err = err.__cause__ or err.__context__
        seen += 1
    return False


def cases(ctx):
    rng = ctx.rng("cases")
    for i in range(ctx.pick(300, 6000)):
        B = rng.randint(1, 8)
        n = rng.randint(B, max(B, min(20, 3 * B)))
        if i % 9 == 4:
            # crops of ten and more batches of unequal sizes (two-digit batch ids)
            B = 10 + i % 5
            n = 2 * B + 3
        use_cases = rng.random() < 0.3
        hist = [rng.choice(OPS) for _ in range(rng.randint(3, 12))]
        yield {"B": B, "n": n, "cases": use_cases, "batching": rng.choice(["num_batches", "batchsize"]),
               "shuffle": rng.choice([False, False, True, 11]), "hist": hist, "hseed": rng.randint(0, 10 ** 9),
               "kind": rng.choice(["int", "float", "str", "tuple:2", "array:2"]),
               # more batches requested than there are settings (the crop is capped to one setting per batch)
               "over": rng.random() < 0.15,
               # the crop is made without parent_dir (it lives in the directory the program was in at that moment), and the
               # program changes its working directory afterwards
               "default_parent": rng.random() < 0.2}


def _workload(case):
    n = case["n"]
    if case["cases"]:
        return {"mode": "cases", "names": ["p"], "cases": [{"p": i} for i in range(n)], "combos": [], "constants": {},
                "via": "sow_cases", "kind": case["kind"]}
    # grid with n settings: n x 1 or (n/2) x 2
    if n % 2 == 0 and n > 2:
        combos = [["b", list(range(n // 2))], ["a", ["u", "v"]]]
    else:
        combos = [["a", list(range(n))]]
    return {"mode": "grid", "names": None, "cases": None, "combos": combos, "constants": {"c0": 1}, "kind": case["kind"]}


class GrowRecorder(object):
    """Recording wrapper around the real cropping.grow."""

    def __init__(self):
        self.events = []
        self.orig = None

    def install(self):
        from xyzpy.gen import cropping
        import xyzpy
        if getattr(cropping.grow, "__vf_recorder__", None) is not None:
            self.orig = cropping.grow.__vf_orig__
        else:
            self.orig = cropping.grow
        rec = self

        def grow(batch_number, *args, **kwargs):
            try:
                r = rec.orig(batch_number, *args, **kwargs)
            except BaseException as e:
                rec.events.append((int(batch_number), "raised", type(e).__name__))
                raise
            rec.events.append((int(batch_number), "returned", None))
            return r
        grow.__vf_recorder__ = self
        grow.__vf_orig__ = self.orig
        grow.__name__ = "grow"
        cropping.grow = grow
        xyzpy.grow = grow


def run_case(ctx, case):
    import xyzpy
    rng = ctx.rng("hist", case["hseed"])
    w = _workload(case)
    root = tmp = ctx.mkdtemp("crop")
    name = "c8"
    if case["hseed"] % 5 == 2:
        # the directory (or the crop's name) contains characters that are special in file-name patterns
        tmp = os.path.join(root, "runs [1] x*y")
        os.makedirs(tmp)
        ctx.count("crops_whose_path_contains_pattern_characters")
    elif case["hseed"] % 5 == 3:
        name = "c8[a-z]?"
        ctx.count("crops_whose_path_contains_pattern_characters")
    logfile = os.path.join(tmp, "calls.log")
    ctl = os.path.join(tmp, "ctl.json")
    probe.write_ctl(ctl)
    fn = probe.Probe(w["kind"], logfile=logfile, ctl=ctl, name="probe")
    rec = GrowRecorder()
    rec.install()
    sig = {"api": "progress", "form": w["mode"], "batching": case["batching"]}
    ctor = {"shuffle": case["shuffle"]} if case["shuffle"] else {}
    # the function is NOT saved with the crop (save_fn=False: it is handed to every grower explicitly); handles re-created
    # from the name alone have no function at all - progress is still what is on disk
    nosave = case["hseed"] % 7 == 3 and not case.get("default_parent")
    if nosave:
        ctor["save_fn"] = False
        ctx.count("crops_whose_function_is_not_saved")
    if case["batching"] == "num_batches":
        ctor["num_batches"] = case["B"] if not case.get("over") else case["n"] + 1 + case["hseed"] % 3
    else:
        ctor["batchsize"] = -(-case["n"] // case["B"])
    try:
        with quiet():
            if case.get("default_parent"):
                cwd0 = os.getcwd()
                elsewhere = ctx.mkdtemp("cwd")
                os.chdir(tmp)
                try:
                    crop = xyzpy.Crop(fn=fn, name=name, **ctor)
                finally:
                    os.chdir(elsewhere)         # every later operation of this case runs from another (scratch) directory
                ctx.count("crops_made_without_parent_dir_then_chdir")
            else:
                crop = xyzpy.Crop(fn=fn, name=name, parent_dir=tmp, **ctor)
            cropkit.sow(crop, w)
    except Exception as e:
        ctx.violation(case, "sow raised %r" % (e,), dict(sig, step="sow", **exc_sig(e)))
        if case.get("default_parent") and "cwd0" in dir():
            os.chdir(cwd0)
        ctx.rmtree(root)
        return
    files = cropkit.batch_files(tmp, name) if os.path.isdir(cropkit.crop_dir(tmp, name)) else {}
    if not files:
        ctx.violation(case, "after the sow there is no crop in the directory the Crop was created in (%s)" % (
            "the program changed its working directory afterwards" if case.get("default_parent") else "explicit parent_dir"),
            dict(sig, oracle="crop-location"))
        if case.get("default_parent"):
            os.chdir(cwd0)
            ctx.rmtree(elsewhere)
        ctx.rmtree(root)
        return
    B = len(files)
    batch_settings = {i: [probe.canon(kw) for kw in cropkit.read_pickle(p)] for i, p in files.items()}
    allb = set(range(1, B + 1))
    finished = set()
    resdir = os.path.join(cropkit.crop_dir(tmp, name), "results")
    log_off = 0
    done_hist = ["sow"]
    nviol = 0

    def listing():
        return sorted(os.listdir(resdir))

    def judge(op, crop_obj):
        nonlocal nviol
        bad = []
        try:
            with quiet():
                q = (crop_obj.num_sown_batches, crop_obj.num_results, tuple(crop_obj.missing_results()),
                     crop_obj.is_ready_to_reap())
                s = str(crop_obj)
        except Exception as e:
            ctx.violation(dict(case, at=list(done_hist)), "progress query raised %r after %s" % (e, done_hist),
                          dict(sig, oracle="query", **exc_sig(e)))
            nviol += 1
            return
        want_missing = tuple(sorted(allb - finished))
        if q[0] != B:
            bad.append("num_sown_batches=%r but %d batches are sown" % (q[0], B))
        if q[1] != len(finished):
            bad.append("num_results=%r but batches %s finished" % (q[1], sorted(finished)))
        if q[2] != want_missing:
            bad.append("missing_results()=%r but missing are %r" % (q[2], want_missing))
        if q[3] != (len(want_missing) == 0):
            bad.append("is_ready_to_reap()=%r with missing=%r" % (q[3], want_missing))
        m = re.search(r"(\d+) / (\d+) batches of size (\d+) completed", s)
        if not m or int(m.group(1)) != len(finished) or int(m.group(2)) != B:
            bad.append("str(crop) says %r for %d/%d" % (m.group(0) if m else s[:80], len(finished), B))
        want_files = sorted("xyz-result-%d.jbdmp" % i for i in finished)
        # (temporary files left behind by a failed write are not results: only final names are compared)
        if [f for f in listing() if re.fullmatch(r"xyz-result-\d+\.jbdmp", f)] != want_files:
            bad.append("results/ holds %s, finished batches are %s" % (listing(), sorted(finished)))
        ctx.count("states_judged")
        for msg in bad[:2]:
            ctx.violation(dict(case, at=list(done_hist)), "after %s: %s" % (done_hist, msg),
                          dict(sig, oracle=msg.split("=")[0].split(" ")[0], op=op))
            nviol += 1
        ctx.observe({"shape": [case["n"], B], "history": list(done_hist)},
                    key=(case["n"], B, case["cases"], case["batching"], case["shuffle"], tuple(done_hist), case["hseed"]),
                    nontrivial=B >= 2, info={"queries": [q[0], q[1], list(q[2]), q[3]], "finished": sorted(finished)})

    judge("sow", crop)
    if B >= 10:
        ctx.count("crops_of_ten_and_more_batches")
    hist = list(case["hist"])
    if nosave:
        hist = [{"grow": "grow_fn", "grow_subset": "grow_fn", "grow_missing": "grow_fn", "grow_unpicklable": "query", "resow": "reload",
                 "resow_refused": "query"}.get(o_, o_) for o_ in hist]
    if case["hseed"] % 6 == 1 and B >= 2 and not nosave:
        hist.insert(case["hseed"] % (len(hist) + 1), "resow_fn_pooled")
    for op in hist:
        if nviol:
            break
        ev0 = len(rec.events)
        before = listing()
        expect_exc = False
        err = None
        ids = []
        # the grower is rank 0 of an MPI launch (mpiexec -n 1 / an srun step set these variables): rank 0 is the rank
        # that saves, so nothing about progress changes
        mpi_var = None
        if op in ("grow", "grow_fn", "grow_subset", "grow_missing") and rng.random() < 0.2:
            mpi_var = rng.choice(["PMI_RANK", "OMPI_COMM_WORLD_RANK"])
            os.environ[mpi_var] = "0"
            ctx.count("grows_as_mpi_rank_0")
        try:
            with quiet():
                if op == "reload":
                    r_ = rng.random()
                    if r_ < 0.2:
                        # found by looking for crops in that directory (from wherever the program happens to be)
                        crop = xyzpy.load_crops(tmp)[name]
                        ctx.count("reloads_through_load_crops")
                    elif r_ < 0.6 or nosave:
                        crop = xyzpy.Crop(name=name, parent_dir=tmp)
                    else:
                        # re-created by the same constructor call (re-running the script that made it)
                        crop = xyzpy.Crop(fn=fn, name=name, parent_dir=tmp, **ctor)
                        ctx.count("reloads_by_same_constructor_call")
                    ctx.count("reloads")
                elif op == "query":
                    pass
                elif op in ("grow", "grow_fn"):
                    i = rng.randint(1, B)
                    ids = [i]
                    if op == "grow":
                        crop.grow(i)
                    elif nosave:
                        xyzpy.grow(i, crop=crop, fn=fn, verbosity=0)
                    else:
                        xyzpy.grow(i, crop=crop, verbosity=0)
                elif op == "grow_subset":
                    ids = rng.sample(sorted(allb), rng.randint(1, B))
                    if (case["hseed"] + len(done_hist)) % 5 == 0:
                        # DEGENERATE: the subset is EMPTY (a filter that selected nothing): nothing is grown
                        ids = []
                        ctx.count("empty_subsets_grown")
                    # the ids as a list, a tuple, a one-shot generator (crop.grow(i for i in ... if ...)) or a numpy array
                    how_ = (len(ids) + case["hseed"]) % 4
                    if how_ in (2, 3):
                        ctx.count("subsets_grown_from_a_generator_or_an_array_of_ids")
                    import numpy as _np
                    crop.grow([ids, tuple(ids), (i_ for i_ in list(ids)), _np.array(ids)][how_])
                elif op == "grow_missing":
                    ids = sorted(allb - finished)
                    crop.grow_missing()
                    recs, log_off2 = probe.read_log(logfile, log_off)
                    want = Counter(k for i in ids for k in batch_settings[i])
                    got = Counter(r["k"] for r in recs)
                    if got != want:
                        ctx.violation(dict(case, at=list(done_hist)),
                                      "grow_missing evaluated %d settings, the missing batches %s hold %d (it must grow exactly the missing ones)" % (
                                          sum(got.values()), ids, sum(want.values())), dict(sig, oracle="grow_missing-exact"))
                        nviol += 1
                    ctx.count("grow_missing_calls")
                elif op == "grow_fail":
                    ids = rng.sample(sorted(allb), rng.randint(1, B))
                    j = rng.choice(ids)
                    fail_exc = rng.choice(["ProbeFailure", "ProbeFailure", "StopIteration", "KeyError", "ZeroDivisionError", "StopAsyncIteration"])
                    probe.write_ctl(ctl, fail=[rng.choice(batch_settings[j])], fail_exc=fail_exc)
                    expect_exc = True
                    ctx.count("failed_grows_%s" % ("iteration_protocol_exception" if fail_exc.startswith("Stop") else "ordinary_exception"))
                    ctx.count("failed_grows")
                    try:
                        if rng.random() < 0.3 and not nosave:
                            # each batch grown by the module-level grow() with workers INSIDE the batch (what an array job
                            # generated with num_workers= runs): a failing setting must fail the batch just the same
                            ctx.count("failed_grows_with_workers_inside_the_batch")
                            # (how the pool reports the failure is the pool's business - an exotic exception type can take
                            #  a worker down with it -: any exception will do, as long as the batch stays unfinished)
                            expect_exc = "any"
                            try:
                                for i_ in ids:
                                    xyzpy.grow(i_, crop=crop, num_workers=2, verbosity=0)
                            finally:
                                # settings of the failed batch may still be running in the other worker: let them finish
                                # before the call log is read
                                from joblib.externals.loky import get_reusable_executor
                                get_reusable_executor().shutdown(wait=True)
                        elif nosave:
                            for i_ in ids:
                                xyzpy.grow(i_, crop=crop, fn=fn, verbosity=0)
                        else:
                            crop.grow(ids)
                    finally:
                        probe.write_ctl(ctl)
                elif op == "grow_unpicklable":
                    # the function returns something that cannot be written: the grow must fail and leave
                    # the batch unfinished (whatever temporary files the writer leaves behind)
                    ids = rng.sample(sorted(allb), rng.randint(1, B))
                    j = rng.choice(ids)
                    probe.write_ctl(ctl, unpicklable=[rng.choice(batch_settings[j])])
                    expect_exc = "unpicklable"
                    ctx.count("unwritable_results")
                    try:
                        crop.grow(ids)
                    finally:
                        probe.write_ctl(ctl)
                elif op == "delete":
                    if finished:
                        i = rng.choice(sorted(finished))
                        os.remove(os.path.join(resdir, "xyz-result-%d.jbdmp" % i))
                        finished.discard(i)
                elif op == "corrupt_check":
                    badset = set()
                    if finished:
                        for i in rng.sample(sorted(finished), rng.randint(1, min(2, len(finished)))):
                            p = os.path.join(resdir, "xyz-result-%d.jbdmp" % i)
                            how = rng.choice(["truncate", "garbage", "wronglen", "empty"])
                            data = open(p, "rb").read()
                            if how == "truncate":
                                open(p, "wb").write(data[:max(1, len(data) // 2)])
                            elif how == "garbage":
                                open(p, "wb").write(b"\x00not a pickle")
                            elif how == "empty":
                                open(p, "wb").write(b"")
                            else:
                                res = pickle.loads(data)
                                open(p, "wb").write(pickle.dumps(tuple(res) + (res[0],)))
                            badset.add(i)
                    got_bad = crop.check_bad()
                    ctx.count("check_bad_calls")
                    # (the documented return: "the bad batch numbers" - what can be handed to grow() as they are)
                    if sorted(got_bad, key=repr) != sorted(badset, key=repr) or any(type(x) is not int for x in got_bad):
                        ctx.violation(dict(case, at=list(done_hist)), "check_bad reported %r, the bad results are %s" % (got_bad, sorted(badset)),
                                      dict(sig, oracle="check_bad"))
                        nviol += 1
                    finished -= badset
                elif op == "resow_refused":
                    # a re-sow asking for ANOTHER shape (far more batches, or a far smaller batch size) is refused: nothing
                    # changes on disk, and what this very object reports afterwards is still what is true on disk
                    kw_ = {"num_batches": B + 2 + case["n"]} if case["batching"] == "num_batches" else \
                        ({"batchsize": 1} if ctor.get("batchsize", 1) >= 2 else None)
                    if kw_ is None:
                        pass        # (batches of one setting: no other size could be refused)
                    else:
                      try:
                        cropkit.sow(crop, dict(w), **kw_)
                        raise AssertionError("a re-sow with another shape (%s) over a crop of %d batches was accepted" % (kw_, B))
                      except AssertionError:
                        raise
                      except Exception:
                        ctx.count("resows_refused_for_their_shape")
                    if sorted(cropkit.batch_files(tmp, name)) != sorted(allb):
                        ctx.violation(dict(case, at=list(done_hist)), "a refused re-sow changed the batch files", dict(sig, oracle="refused-untouched"))
                        nviol += 1
                elif op == "resow_fn_pooled":
                    # the function is REPLACED by a re-sow of the same shape (results remain) between two grows that use a
                    # pool of workers inside the batch, i.e. while the pool's workers are still alive: what is grown after
                    # the re-sow is grown with the function that was sown last
                    from joblib.externals.loky import get_reusable_executor
                    try:
                        i = rng.randint(1, B)
                        xyzpy.grow(i, crop=crop, num_workers=1, verbosity=0)
                        j = rng.choice(sorted(allb - {i}))
                        ctl2 = os.path.join(tmp, "ctl2.json")
                        probe.write_ctl(ctl2)
                        fn2 = probe.Probe(w["kind"], logfile=logfile, ctl=ctl2, name="probe")
                        crop = xyzpy.Crop(fn=fn2, name=name, parent_dir=tmp, **ctor)
                        cropkit.sow(crop, dict(w))
                        files2 = cropkit.batch_files(tmp, name)
                        batch_settings = {i_: [probe.canon(kw) for kw in cropkit.read_pickle(p)] for i_, p in files2.items()}
                        pj = os.path.join(resdir, "xyz-result-%d.jbdmp" % j)
                        if os.path.exists(pj):
                            os.remove(pj)
                            finished.discard(j)
                        probe.write_ctl(ctl2, fail=[rng.choice(batch_settings[j])])
                        try:
                            xyzpy.grow(j, crop=crop, num_workers=1, verbosity=0)
                            ctx.violation(dict(case, at=list(done_hist)), "after a re-sow that replaced the function, a pooled grow of batch %d returned although "
                                          "the function sown last raises on one of its settings" % j, dict(sig, oracle="grown-with-the-sown-function", op=op))
                            nviol += 1
                        except Exception:
                            pass
                        # ... and repaired by another re-sow, the batch grows
                        crop = xyzpy.Crop(fn=fn, name=name, parent_dir=tmp, **ctor)
                        cropkit.sow(crop, dict(w))
                        files2 = cropkit.batch_files(tmp, name)
                        batch_settings = {i_: [probe.canon(kw) for kw in cropkit.read_pickle(p)] for i_, p in files2.items()}
                        xyzpy.grow(j, crop=crop, num_workers=1, verbosity=0)
                        ctx.count("pooled_grows_around_a_resow_that_replaced_the_function")
                    finally:
                        get_reusable_executor().shutdown(wait=True)
                elif op == "resow":
                    w2 = dict(w)
                    crop2 = crop if rng.random() < 0.5 else xyzpy.Crop(fn=fn, name=name, parent_dir=tmp, **ctor)
                    cropkit.sow(crop2, w2)
                    crop = crop2
                    ctx.count("resows")
                    # a re-sow may lay the batches out differently (e.g. a reloaded crop has lost its shuffle)
                    files2 = cropkit.batch_files(tmp, name)
                    if sorted(files2) != sorted(allb):
                        ctx.violation(dict(case, at=list(done_hist)), "re-sow with the same shape changed the batch ids to %s" % sorted(files2),
                                      dict(sig, oracle="resow-shape"))
                        nviol += 1
                    batch_settings = {i: [probe.canon(kw) for kw in cropkit.read_pickle(p)] for i, p in files2.items()}
        except probe.ProbeFailure as e:
            err = e
        except Exception as e:
            err = e
        finally:
            if mpi_var:
                os.environ.pop(mpi_var, None)
        log_off = probe.read_log(logfile, log_off)[1]
        done_hist.append(op if not ids else "%s%s" % (op, ids))
        if err is not None and expect_exc in ("unpicklable", "any"):
            pass            # any exception from the failed write is fine
        elif err is not None and not (expect_exc and _is_injected(err)):
            ctx.violation(dict(case, at=list(done_hist)), "%s raised %r" % (op, err), dict(sig, oracle="no-exception", op=op, **exc_sig(err)))
            nviol += 1
            break
        if expect_exc and err is None:
            ctx.violation(dict(case, at=list(done_hist)), "a grow whose function raised did not raise", dict(sig, oracle="failure-propagates"))
            nviol += 1
        # ground truth from the recording wrapper
        for (i, outcome, _) in rec.events[ev0:]:
            ctx.count("grow_events_recorded")
            if outcome == "returned":
                finished.add(i)
        # a grow that returned has grown every batch it was asked for
        if err is None and op in ("grow", "grow_fn", "grow_subset", "grow_missing") and not mpi_var:
            not_grown = sorted(set(ids) - {i for (i, o_, _) in rec.events[ev0:] if o_ == "returned"})
            if not_grown:
                ctx.violation(dict(case, at=list(done_hist)), "%s returned normally, but batches %s of the %s it was asked for were never grown" % (
                    op, not_grown, sorted(ids)), dict(sig, oracle="asked-for-is-grown", op=op))
                nviol += 1
        # ... and nothing it was not asked for
        if err is None and op in ("grow", "grow_fn", "grow_subset") and not mpi_var:
            unasked = sorted({i for (i, o_, _) in rec.events[ev0:] if o_ == "returned"} - set(ids))
            if unasked:
                ctx.violation(dict(case, at=list(done_hist)), "%s was asked for batches %s and also grew %s" % (op, sorted(ids), unasked),
                              dict(sig, oracle="only-asked-for-is-grown", op=op))
                nviol += 1
        # a grow writes only its own result file(s)
        after = listing()
        if op in ("grow", "grow_fn", "grow_subset", "grow_missing", "grow_fail", "grow_unpicklable", "resow_fn_pooled"):
            returned = {"xyz-result-%d.jbdmp" % i for (i, o, _) in rec.events[ev0:] if o == "returned"}
            new = {f for f in set(after) - set(before) if re.fullmatch(r"xyz-result-\d+\.jbdmp", f)}
            if not new <= returned or set(before) - set(after):
                ctx.violation(dict(case, at=list(done_hist)), "growing changed result files other than its own: new=%s removed=%s (batches that returned: %s)" % (
                    sorted(new), sorted(set(before) - set(after)), sorted(returned)), dict(sig, oracle="only-own-result"))
                nviol += 1
        judge(op, crop)
    if case.get("default_parent"):
        os.chdir(cwd0)
        ctx.rmtree(elsewhere)
    ctx.rmtree(root)
