"""C07 -- batches partition the work exactly and honour the requested size or count.

Events: the contents of every batches/xyz-batch-*.jbdmp written by a real sow; the
numbers the Crop reports (batchsize, num_batches, num_sown_batches) before and after being
re-created from disk; an icontract postcondition on Crop.choose_batch_settings.
"""
import math
from collections import Counter

import icontract

from .. import gens, probe, refmodel, cropkit, contracts
from ..common import quiet, exc_sig

PID = "C07"
LEVEL = "exploration"
TECHNIQUE = ("runtime monitoring: batch files written by real sows are read back and checked as an exact partition "
             "against a reference enumeration; icontract postcondition on choose_batch_settings; exhaustive over (N, size/count)")
RULE = ("every N in 1..Nmax x every batchsize in 1..N+1 and every num_batches in 1..N+2 (Nmax = 16 quick / 48 thorough, "
        "grids; case lists up to 12 / 24), plus seeded samples with shuffle settings, constants, cases x sub-grids and "
        "farmer-provided constants/resources (also one name held as both, expectation recorded from a real direct run); every crop is reloaded both bare and by the same constructor call; re-sows (same/other N, same/reloaded crop) either refused untouched or an exact partition, an identical re-sow always accepted and honouring the request again, also on the same object after a reap deleted the crop; a size AND a count that agree exactly (s * k = N); sows of 2000-3400 settings; count crops whose first sow divided evenly, re-sown with fewer settings; subclasses of Runner as farmers; crops sown anew behind a long-lived Crop object; distinct by (N, mode, value, workload form, shuffle); non-trivial when N >= 2")
RULE += '; a farmer resource named like the last swept argument (expectation recorded from a real direct run)'
ASSUMPTIONS = [
    "in count mode the crop's reported batchsize is the smaller of the two sizes (every batch has batchsize or batchsize+1 settings)",
]
EXHAUSTIVE = {"quick": True, "thorough": True}
EXHAUSTIVE_NOTE = ("exhaustive over (N, batchsize) and (N, num_batches) for N <= 16 (quick) / N <= 48 (thorough) with one grid "
                   "shape per N; shuffle/constants/case forms are sampled")
SHARDS = {"quick": 4, "thorough": 16}
MIN_REACH = {
    "crops_sown_anew_whose_settings_file_kept_its_size_and_time_stamp": {"quick": 3, "thorough": 10},
    "batch_files_read": {"quick": 2500, "thorough": 30000},
    "farmers_holding_a_resource_named_like_a_swept_argument": {"quick": 3, "thorough": 30},
    "contract_evals_choose_batch_settings": {"quick": 300, "thorough": 3000},
    "crops_given_a_size_and_a_count_that_agree": {"quick": 20, "thorough": 60},
    "farmers_that_are_instances_of_a_user_subclass": {"quick": 10, "thorough": 60},
    "sows_of_two_thousand_and_more_settings": {"quick": 3, "thorough": 4},
    "resows_of_count_crops_whose_first_sow_divided_evenly": {"quick": 9, "thorough": 40},
    "reloads_checked": {"quick": 300, "thorough": 3000},
    "resows_accepted": {"quick": 15, "thorough": 60},
    "resows_refused": {"quick": 15, "thorough": 60},
    "reloads_by_same_constructor_call": {"quick": 150, "thorough": 1200},
    "identical_resows_accepted": {"quick": 5, "thorough": 20},
    "resows_after_a_cleaning_reap": {"quick": 20, "thorough": 50},
    "resows_of_farmer_crops": {"quick": 8, "thorough": 25},
    "farmers_holding_a_name_as_constant_and_resource": {"quick": 12, "thorough": 150},
    "positional_cases_named_by_the_farmers_fn_args": {"quick": 8, "thorough": 40},
    "sows_after_a_refused_attempt": {"quick": 30, "thorough": 300},
    "resows_after_the_farmer_changed_what_it_provides": {"quick": 5, "thorough": 20},
}
TIME_BUDGET = {"quick": 300, "thorough": 3000}


def _factor_grid(n, variant):
    """A grid with exactly n settings (one shape per n, rotated by `variant`)."""
    shapes = []
    for a in range(1, n + 1):
        if n % a == 0:
            shapes.append((a, n // a))
            for b in range(2, n // a + 1):
                if (n // a) % b == 0 and a > 1 and (n // a) // b > 1:
                    shapes.append((a, b, n // a // b))
    shape = [s for s in shapes[variant % len(shapes)] if s >= 1]
    names = ["b", "a", "c"]
    return [[names[i], list(range(10 * i + 1, 10 * i + 1 + s))] for i, s in enumerate(shape)]


def cases(ctx):
    nmax = ctx.pick(16, 48)
    for n in range(1, nmax + 1):
        for bs in range(1, n + 2):
            yield {"w": {"mode": "grid", "combos": _factor_grid(n, bs), "names": None, "cases": None,
                         "constants": {}, "kind": "int"}, "batchsize": bs, "num_batches": None, "shuffle": False,
                   "where": "ctor"}
        for nb in range(1, n + 3):
            yield {"w": {"mode": "grid", "combos": _factor_grid(n, nb + 1), "names": None, "cases": None,
                         "constants": {}, "kind": "int"}, "batchsize": None, "num_batches": nb, "shuffle": False,
                   "where": "ctor", "refused_first": [None, None, "same_object", "new_object"][(n + nb) % 4]}
    # sows of two thousand and more settings (2121, 2001, 3407: no multiples of a round chunk): the arithmetic is the
    # same, but long sows are where progress reporting / chunking shortcuts live
    for i, (n, bs, nb) in enumerate([(2121, 50, None), (2001, None, 41), (2121, None, 7), (3407, 100, None)][:ctx.pick(3, 4)]):
        if n == 3407:
            w = {"mode": "cases", "combos": [], "names": ["p", "q"], "cases": [{"p": j, "q": "s%d" % (j % 3)} for j in range(n)],
                 "constants": {}, "kind": "int"}
        else:
            w = {"mode": "grid", "combos": _factor_grid(n, 3), "names": None, "cases": None, "constants": {}, "kind": "int"}
        yield {"w": w, "batchsize": bs, "num_batches": nb, "shuffle": [False, True, False, 3][i], "where": ["ctor", "sow"][i % 2], "long": True}
    # a size AND a count, agreeing exactly (s * k = N): both clauses hold at once
    for n in range(1, nmax + 1):
        for bs in range(1, n + 1):
            if n % bs == 0:
                yield {"w": {"mode": "grid", "combos": _factor_grid(n, bs), "names": None, "cases": None,
                             "constants": {}, "kind": "int"}, "batchsize": bs, "num_batches": n // bs, "shuffle": False,
                       "where": ["ctor", "sow"][(n + bs) % 2], "both": True}
    cmax = ctx.pick(12, 24)
    for n in range(1, cmax + 1):
        cs = [{"p": i, "q": "s%d" % (i % 3)} for i in range(n)]
        for bs in range(1, n + 2):
            yield {"w": {"mode": "cases", "combos": [], "names": ["p", "q"], "cases": cs, "constants": {}, "kind": "int",
                         "case_spelling": "dict" if bs % 2 else "tuple"},
                   "batchsize": bs, "num_batches": None, "shuffle": False, "where": "sow", "farmer": bs % 4 == 0}
        for nb in range(1, n + 3):
            yield {"w": {"mode": "cases", "combos": [], "names": ["p", "q"], "cases": cs, "constants": {}, "kind": "int"},
                   "batchsize": None, "num_batches": nb, "shuffle": False, "where": "sow"}
    # one argument with a name of several characters, given positionally: as a 1-tuple of names, or as one bare string
    for n in range(1, cmax + 1):
        cs = [{"temp": 10 * i} for i in range(n)]
        yield {"w": {"mode": "cases", "combos": [], "names": ["temp"], "cases": cs, "constants": {}, "kind": "int", "case_spelling": "tuple"},
               "batchsize": 1 + n % 3, "num_batches": None, "shuffle": False, "where": "sow", "bare_name": n % 2 == 0}
    # re-sowing an existing crop (same object, or re-created from disk so that batchsize, num_batches and the remainder are
    # all known) with the same or a different number of settings: either refused with nothing touched, or an exact partition
    rr = ctx.rng("resow")
    for n0 in range(2, ctx.pick(14, 30)):
        for mode in ("num_batches", "batchsize"):
            for rep in range(ctx.pick(2, 4)):
                val = rr.randint(1, n0)
                n1 = max(1, n0 + rr.choice([0, 0, -1, 1, -2, 2, -(n0 // max(1, val)), -3, 3]))
                yield {"resow": True, "n0": n0, "n1": n1, "mode": mode, "val": val, "reload": rr.random() < 0.5,
                       "cases": rr.random() < 0.4, "farmer": rr.random() < 0.4}
                # second use of the same Crop object: sow, grow, reap (which deletes the crop), sow again
                yield {"resow": True, "n0": n0, "n1": n0 if rr.random() < 0.7 else n1, "mode": mode, "val": val, "reload": False,
                       "cases": rr.random() < 0.4, "after_reap": True}
    for n0 in range(5, ctx.pick(14, 40)):
        # a crop sown by batch COUNT (with a remainder) and sown again with one setting fewer, by the same object or a reloaded one
        for k in range(2, n0 - 1):
            if n0 % k:
                yield {"resow": True, "n0": n0, "n1": n0 - 1, "mode": "num_batches", "val": k, "reload": bool((n0 + k) % 2), "cases": bool(k % 3 == 0)}
    for n0 in range(6, ctx.pick(21, 41)):
        # a crop sown by batch COUNT whose first sow divided EVENLY (12 settings in 4 batches of 3), then sown again with
        # two settings fewer - by the same object, a reloaded one, or one re-created by the same constructor call
        for k in range(2, n0 // 3 + 1):
            if n0 % k == 0:
                yield {"resow": True, "n0": n0, "n1": n0 - 2, "mode": "num_batches", "val": k, "reload": bool((n0 + k) % 2), "cases": bool(k % 3 == 0)}
    for n0 in range(2, ctx.pick(12, 40)):
        # the same Crop object of a farmer crop sown twice with the same number of settings
        yield {"resow": True, "n0": n0, "n1": n0, "mode": ["num_batches", "batchsize"][n0 % 2], "val": 1 + n0 % 4, "reload": False,
               "cases": n0 % 3 == 0, "farmer": True}
    rng = ctx.rng("sampled")
    for i in range(ctx.pick(250, 3000)):
        w = cropkit.gen_workload(rng, nmax=48, exotic=True)
        if w["mode"] != "grid" and rng.random() < 0.5:
            w["via"] = "sow_combos"
        elif w["mode"] != "grid":
            # positional cases named by fn_args (a tuple of names, or one bare name with bare values)
            w["case_spelling"] = rng.choice(["dict", "tuple", "tuple"])
        n = gens.n_settings(w["combos"], w["cases"])
        c = {"w": w, "batchsize": None, "num_batches": None, "where": rng.choice(["ctor", "sow"]),
             "shuffle": rng.choice([False, True, rng.randint(2, 9999)]), "shuffle_where": rng.choice(["ctor", "sow"]),
             "farmer": rng.random() < 0.3, "farmer_dup": rng.random() < 0.5}
        r = rng.random()
        if r < 0.45:
            c["batchsize"] = rng.randint(1, n + 1)
        elif r < 0.9:
            c["num_batches"] = rng.randint(1, n + 2)
        yield c

    # a crop deleted and sown ANEW (another grid / another batching, a settings file of the same size and time stamp) while a
    # long-lived Crop object that had looked at the earlier crop is still in use
    for k in range(ctx.pick(4, 12)):
        yield {"stale_settings": ["grid", "batching"][k % 2], "k": k}


def _direct_run_extras(farmer, expect):
    """What a DIRECT run of this farmer passes on top of the swept arguments: recorded from a real run_combos call on a
    recording stand-in function (so the expectation for the sown settings is the library's own direct behaviour)."""
    import xyzpy
    seen = []

    def rec(**kw):
        seen.append(dict(kw))
        return 0.0
    r = xyzpy.Runner(rec, var_names="out", constants=dict(farmer._constants), resources=dict(farmer._resources))
    with quiet():
        r.run_combos({"zz_probe_arg": [0]}, verbosity=0)
    got = {k: v for k, v in seen[0].items() if k != "zz_probe_arg"}
    return got if got else expect


class _Seen(object):
    last = None


def _cbs_had(self):
    return (self.batchsize is not None) and (self.num_batches is not None)


def _cbs_post(self, combos, cases, result, OLD):
    """Postcondition of Crop.choose_batch_settings: batchsize * num_batches (+ remainder) covers exactly n.
    (When both numbers were already known - a re-sow - nothing is chosen; the re-sow cases judge the partition itself.)"""
    contracts._bump("choose_batch_settings")
    if OLD.had:
        return True
    n = (len(cases) if cases else 1)
    if combos:
        for _, v in combos:
            n *= len(v)
    bs, nb, rem = self.batchsize, self.num_batches, self._batch_remainder
    ok = isinstance(bs, int) and isinstance(nb, int) and bs >= 1 and nb >= 1 and rem is not None
    if ok:
        if rem:
            ok = bs * nb + rem == n and 0 <= rem < nb
        else:
            ok = bs * (nb - 1) < n <= bs * nb
    if not ok:
        contracts.RECORDS.append({"contract": "choose_batch_settings",
                                  "msg": "n=%d -> batchsize=%r num_batches=%r remainder=%r do not cover n exactly" % (n, bs, nb, rem),
                                  "witness": {"n": n}})
    return True


def setup(ctx):
    from xyzpy.gen import cropping
    if not getattr(cropping.Crop.choose_batch_settings, "__vf_contract__", False):
        w = icontract.snapshot(_cbs_had, name="had")(
            icontract.ensure(_cbs_post, error=contracts.ContractBroken)(cropping.Crop.choose_batch_settings))
        w.__vf_contract__ = True
        cropping.Crop.choose_batch_settings = w


def run_resow(ctx, case):
    import xyzpy
    tmp = ctx.mkdtemp("crop")
    fn = probe.Probe("int", name="probe")
    sig = {"api": "re-sow", "mode": case["mode"]}

    def wl(n):
        if case["cases"]:
            return {"mode": "cases", "names": ["p"], "cases": [{"p": i} for i in range(n)], "combos": [], "constants": {}, "via": "sow_cases"}
        return {"mode": "grid", "names": None, "cases": None, "combos": [["a", list(range(n))]], "constants": {}}
    fextra = {}
    with quiet():
        if case.get("farmer"):
            # a farmer that brings its own constants and resources: every sow (also through a crop re-created from disk)
            # must write them into each setting's keyword arguments
            fextra = {"fc": 7, "res_r": "r0"}
            crop = xyzpy.Crop(farmer=xyzpy.Runner(fn, "out", constants={"fc": 7}, resources={"res_r": "r0"}), name="c7", parent_dir=tmp,
                              **{case["mode"]: case["val"]})
            ctx.count("resows_of_farmer_crops")
        else:
            crop = xyzpy.Crop(fn=fn, name="c7", parent_dir=tmp, **{case["mode"]: case["val"]})
        cropkit.sow(crop, wl(case["n0"]))
        if case.get("after_reap"):
            crop.grow_missing()
            crop.reap()
            ctx.count("resows_after_a_cleaning_reap")
    before = cropkit.tree_snapshot(cropkit.crop_dir(tmp, "c7"))
    err = None
    try:
        with quiet():
            if not case["reload"]:
                c2 = crop
                if case.get("farmer") and case["n1"] == case["n0"]:
                    # "tweaked a constant and sowed again" (documented as safe): the farmer now provides other values
                    crop.farmer.constants = {"fc": 8}
                    crop.farmer.resources = {"res_r": "r1"}
                    fextra = {"fc": 8, "res_r": "r1"}
                    ctx.count("resows_after_the_farmer_changed_what_it_provides")
            elif case.get("farmer"):
                c2 = xyzpy.Crop(name="c7", parent_dir=tmp)          # the farmer comes back from the crop's own settings file
            else:
                c2 = xyzpy.Crop(fn=fn, name="c7", parent_dir=tmp)
            cropkit.sow(c2, wl(case["n1"]))
    except Exception as e:
        err = e
    bad = []
    files = cropkit.batch_files(tmp, "c7")
    if err is not None:
        ctx.count("resows_refused")
        if case["n1"] == case["n0"]:
            # the very same sow as before (same crop definition, same number of settings): it split fine the first time
            bad.append("sowing the same %d settings again (%s=%d, %s crop) was refused: %r" % (
                case["n0"], case["mode"], case["val"], "reloaded" if case["reload"] else "same", err))
        after = cropkit.tree_snapshot(cropkit.crop_dir(tmp, "c7"))
        if {k: v for k, v in (after or {}).items() if "batches" in k} != {k: v for k, v in (before or {}).items() if "batches" in k}:
            bad.append("a refused re-sow (%r) changed the batch files" % (err,))
    else:
        ctx.count("resows_accepted")
        if case["n1"] == case["n0"]:
            ctx.count("identical_resows_accepted")
        want = Counter(probe.canon({**p, **fextra}) for p in cropkit.requested_settings(wl(case["n1"])))
        got = Counter()
        sizes = {}
        for i, p in files.items():
            b = cropkit.read_pickle(p)
            sizes[i] = len(b)
            for kw in b:
                got[probe.canon(kw)] += 1
            ctx.count("batch_files_read")
        if got != want:
            bad.append("after re-sowing %d settings over a crop of %d (%s=%d) the batch files hold %d settings: stale or missing %s" % (
                case["n1"], case["n0"], case["mode"], case["val"], sum(got.values()),
                sorted((set(got) - set(want)) | (set(want) - set(got)))[:3]))
        B = len(files)
        if sorted(files) != list(range(1, B + 1)) or any(v == 0 for v in sizes.values()):
            bad.append("batch ids %s / sizes %s after the re-sow" % (sorted(files), sizes))
        if True:
            # an accepted sow - the same settings again, or another number of them - honours the size / count asked for
            N = case["n1"]
            wantB = min(case["val"], N) if case["mode"] == "num_batches" else math.ceil(N / case["val"])
            # (a crop whose FIRST sow divided evenly holds the same three numbers as one that was given the batch size: the
            #  crop remembers which was asked for)
            if case["mode"] == "num_batches" and case["n1"] != case["n0"] and case["n0"] % min(case["val"], case["n0"]) == 0:
                ctx.count("resows_of_count_crops_whose_first_sow_divided_evenly")
            if False:
                pass
            elif B != wantB or (case["mode"] == "num_batches" and sizes and max(sizes.values()) - min(sizes.values()) > 1) \
                    or (case["mode"] == "batchsize" and sizes and max(sizes.values()) > case["val"]):
                bad.append("sowing %s %d settings%s (%s=%d) gave %d batches of sizes %s, the request means %d batches%s" % (
                    "the same" if case["n1"] == case["n0"] else "then", N, " after reaping" if case.get("after_reap") else "", case["mode"], case["val"], B,
                    sorted(sizes.values()), wantB, " whose sizes differ by at most one" if case["mode"] == "num_batches" else " of at most that size"))
            ctx.count("accepted_resows_judged_against_the_request")
        try:
            with quiet():
                c3 = xyzpy.Crop(name="c7", parent_dir=tmp)
                rep = (c3.num_batches, c3.num_sown_batches)
            if rep != (B, B):
                bad.append("after the re-sow the crop reports num_batches=%r num_sown_batches=%r, %d batch files exist" % (rep[0], rep[1], B))
        except Exception as e:
            bad.append("after the re-sow the crop cannot be loaded again: %r" % (e,))
    for rec in contracts.drain():           # postconditions of choose_batch_settings evaluated by the two sows of this case
        bad.append("%s: %s" % (rec["contract"], rec["msg"]))
    for msg in bad[:2]:
        ctx.violation(case, msg, dict(sig, oracle=" ".join(msg.split(" ")[:3])))
    ctx.rmtree(tmp)
    ctx.observe(case, key=("resow", case["n0"], case["n1"], case["mode"], case["val"], case["reload"], case["cases"], bool(case.get("after_reap"))),
                nontrivial=True, info={"refused": repr(err)[:80] if err else None, "batches": len(files)})


def run_case(ctx, case):
    if case.get("stale_settings"):
        import xyzpy as _x
        tmp_ = ctx.mkdtemp("stale")
        try:
            with quiet():
                probs_, same_size_ = cropkit.stale_settings_scenario(_x, tmp_, case["stale_settings"], farmer=case['k'] % 2 == 1)
        except Exception as e_:
            probs_, same_size_ = ["the scenario raised %r" % (e_,)], False
        ctx.count("crops_sown_anew_behind_a_long_lived_crop_object")
        if same_size_:
            ctx.count("crops_sown_anew_whose_settings_file_kept_its_size_and_time_stamp")
        for m_ in probs_[:2]:
            ctx.violation(case, m_, {"api": "long-lived Crop", "oracle": "looks-at-the-crop-that-is-there", "variant": case["stale_settings"]})
        ctx.observe(case, key=("stale", case["stale_settings"], case["k"]))
        ctx.rmtree(tmp_)
        return
    import xyzpy
    if case.get("resow"):
        return run_resow(ctx, case)
    w = case["w"]
    e0 = contracts.EVALS.get("choose_batch_settings", 0)
    tmp = ctx.mkdtemp("crop")
    fn = probe.Probe(w["kind"], name="probe")
    constants = dict(w["constants"])
    farmer = None
    farmer_consts = {}
    sowkw_extra = {}
    if case.get("farmer"):
        fc, fr = {"fc": 7}, {"res_r": "r0"}
        if case.get("farmer_dup"):
            # the same name held both as a constant and as a resource of the farmer: a direct run passes the constant
            fc, fr = {"fc": 7, "both": 3}, {"res_r": "r0", "both": -1}
            ctx.count("farmers_holding_a_name_as_constant_and_resource")
        elif w["mode"] == "grid" and w["combos"] and len(str(w["combos"])) % 2 == 0:
            # NAME COLLISION: a resource of the farmer is named like an argument this sow sweeps over - a direct run passes the
            # resource on top of the swept value (recorded from a real direct run below), so must the sown settings
            fr = {"res_r": "r0", w["combos"][-1][0]: 99}
            ctx.count("farmers_holding_a_resource_named_like_a_swept_argument")
        fa = {}
        if w["mode"] != "grid" and w.get("via") != "sow_combos" and w.get("case_spelling") == "tuple" and len(w["names"]) >= 2:
            # the Runner holds the names (and order) of positional cases; the sow call gives none - as Runner.run_cases
            fa = {"fn_args": tuple(w["names"])}
            sowkw_extra["names_from_farmer"] = True
            ctx.count("positional_cases_named_by_the_farmers_fn_args")
        runner_cls = xyzpy.Runner
        if (len(fc) + len(fr) + len(str(case.get("batchsize"))) + len(str(case.get("num_batches")))) % 2 == 0:
            # the project's own subclass of Runner (extra helpers, same behaviour)
            class ProjectRunner(xyzpy.Runner):
                def describe(self):
                    return "project runner"
            runner_cls = ProjectRunner
            ctx.count("farmers_that_are_instances_of_a_user_subclass")
        farmer = runner_cls(fn, var_names=None if w["kind"].startswith(("data", "dict")) else "out",
                            constants=fc, resources=fr, **fa)
        farmer_consts = _direct_run_extras(farmer, {**fr, **fc})
    ctor = {}
    sowkw = {}
    target = ctor if case["where"] == "ctor" else sowkw
    if case["batchsize"] is not None:
        target["batchsize"] = case["batchsize"]
    if case["num_batches"] is not None:
        target["num_batches"] = case["num_batches"]
    shuffle_at_sow = None
    if case["shuffle"]:
        if case.get("shuffle_where", "ctor") == "ctor":
            ctor["shuffle"] = case["shuffle"]
        else:
            shuffle_at_sow = case["shuffle"]
    sig = {"api": "sow", "mode": "size" if case["batchsize"] is not None else "count" if case["num_batches"] is not None else "default",
           "form": w["mode"], "farmer": bool(farmer)}
    err = None
    try:
        with quiet():
            if farmer is not None:
                crop = xyzpy.Crop(farmer=farmer, name="c7", parent_dir=tmp, **ctor)
            else:
                crop = xyzpy.Crop(fn=fn, name="c7", parent_dir=tmp, **ctor)
            if case.get("refused_first") and w["mode"] == "grid":
                # a first attempt is REFUSED (a value given twice on one axis - one setting too many); the corrected sow
                # that follows, by this object or by a new one on the same name, is an ordinary first sow
                dup = [(a, list(v) + ([v[0]] if k_ == 0 else [])) for k_, (a, v) in enumerate(w["combos"])]
                try:
                    crop.sow_combos(dict(dup), verbosity=0, **sowkw)
                    raise AssertionError("a grid naming a value twice was not refused")
                except AssertionError:
                    raise
                except Exception:
                    ctx.count("sows_after_a_refused_attempt")
                if case["refused_first"] == "new_object":
                    crop = xyzpy.Crop(farmer=farmer, name="c7", parent_dir=tmp, **ctor) if farmer is not None else \
                        xyzpy.Crop(fn=fn, name="c7", parent_dir=tmp, **ctor)
            if w["mode"] == "grid" or w.get("via") == "sow_combos":
                cropkit.sow(crop, w, shuffle_at_sow=shuffle_at_sow, **sowkw)
            else:
                if shuffle_at_sow is not None:
                    crop.shuffle = shuffle_at_sow   # sow_cases has no shuffle argument: the crop attribute is the API
                cropkit.sow(crop, w, **sowkw, **sowkw_extra)
            rep1 = (crop.batchsize, crop.num_batches, crop.num_sown_batches)
            crop2 = xyzpy.Crop(name="c7", parent_dir=tmp)
            rep2 = (crop2.batchsize, crop2.num_batches, crop2.num_sown_batches)
            # ... and re-created by the very same constructor call (what re-running the sow script's first lines does)
            if farmer is not None:
                crop3 = xyzpy.Crop(farmer=farmer, name="c7", parent_dir=tmp, **ctor)
            else:
                crop3 = xyzpy.Crop(fn=fn, name="c7", parent_dir=tmp, **ctor)
            rep3 = (crop3.batchsize, crop3.num_batches, crop3.num_sown_batches)
            if ctor:
                ctx.count("reloads_by_same_constructor_call")
    except Exception as e:
        err = e
    if err is not None:
        ctx.violation(case, "sow raised %r" % (err,), dict(sig, **exc_sig(err)))
        for rec in contracts.drain():
            ctx.violation(case, "%s: %s" % (rec["contract"], rec["msg"]), dict(sig, oracle="contract"))
        ctx.rmtree(tmp)
        ctx.observe(case, nontrivial=False)
        return

    req = cropkit.requested_settings(w)
    n = len(req)
    want = Counter(probe.canon({**p, **constants, **farmer_consts}) for p in req)
    files = cropkit.batch_files(tmp, "c7")
    sizes = {}
    got = Counter()
    bad = []
    for i, p in files.items():
        try:
            b = cropkit.read_pickle(p)
        except Exception as e:
            bad.append("batch file %d unreadable: %r" % (i, e))
            continue
        sizes[i] = len(b)
        for kw in b:
            got[probe.canon(kw)] += 1
        ctx.count("batch_files_read")
    ctx.rmtree(tmp)
    B = len(files)
    if got != want:
        missing = [k for k in want if got[k] < want[k]]
        dup = [k for k in got if got[k] > want.get(k, 0)]
        bad.append("batches do not partition the settings: missing=%s extra/duplicated=%s" % (missing[:2], dup[:2]))
    if sorted(files) != list(range(1, B + 1)):
        bad.append("batch ids %s are not 1..%d" % (sorted(files), B))
    if any(s == 0 for s in sizes.values()):
        bad.append("empty batch: sizes %s" % sizes)
    if case["batchsize"] is not None:
        s = case["batchsize"]
        if any(v > s for v in sizes.values()):
            bad.append("batch larger than the requested batchsize %d: %s" % (s, sizes))
        if B != math.ceil(n / s):
            bad.append("%d batches for N=%d, batchsize=%d (expected ceil = %d)" % (B, n, s, math.ceil(n / s)))
        if rep1[0] != s:
            bad.append("crop reports batchsize %r, requested %d" % (rep1[0], s))
    if case["num_batches"] is not None and (case["batchsize"] is None or case.get("both")):
        if case.get("both"):
            ctx.count("crops_given_a_size_and_a_count_that_agree")
        k = case["num_batches"]
        if B != min(k, n):
            bad.append("%d batches for N=%d, num_batches=%d (expected min = %d)" % (B, n, k, min(k, n)))
        if sizes and max(sizes.values()) - min(sizes.values()) > 1:
            bad.append("batch sizes differ by more than one: %s" % sizes)
        if sizes and not all(v in (rep1[0], rep1[0] + 1) for v in sizes.values()):
            bad.append("crop reports batchsize %r but batches have sizes %s" % (rep1[0], sorted(set(sizes.values()))))
    if case["batchsize"] is None and case["num_batches"] is None:
        if B != n or any(v != 1 for v in sizes.values()):
            bad.append("default batching is not one setting per batch: %s" % sizes)
    if case.get("long"):
        ctx.count("sows_of_two_thousand_and_more_settings")
    if rep1[1] != B or rep1[2] != B:
        bad.append("crop reports num_batches=%r num_sown_batches=%r but %d batch files exist" % (rep1[1], rep1[2], B))
    if rep3 != rep1:
        bad.append("reported (batchsize, num_batches, num_sown_batches) changed when the crop was re-created by the same constructor call %r: %r -> %r" % (
            ctor, rep1, rep3))
    if rep2 != rep1:
        bad.append("reported (batchsize, num_batches, num_sown_batches) changed on reload: %r -> %r" % (rep1, rep2))
    ctx.count("reloads_checked")
    for rec in contracts.drain():
        bad.append(rec["msg"])
    for msg in bad[:2]:
        ctx.violation(case, msg, dict(sig, oracle=msg.split(":")[0][:40]))
    ctx.count("contract_evals_choose_batch_settings", contracts.EVALS.get("choose_batch_settings", 0) - e0)
    ctx.observe(case, key=(n, case["batchsize"], case["num_batches"], w["mode"], w.get("via"), bool(case["shuffle"]),
                           case.get("shuffle_where"), case["where"], bool(farmer), [len(v) for _, v in w["combos"]]),
                nontrivial=n >= 2,
                info={"N": n, "batches": B, "sizes": [sizes.get(i) for i in sorted(sizes)][:12], "reported": rep1})
