"""C17 -- classic line, scatter, histogram and heat-map plots draw exactly the data.

Events: the artists of the returned matplotlib Figure (Line2D, ErrorbarContainer,
PathCollection, histogram Polygons, QuadMesh, titles, labels, legend texts); the input
Dataset before and after.
Oracle: an independent extraction of what must be drawn from the dataset (one series per
z value / variable in order, finite (x, y) pairs, np.histogram on the common bins, z on the
(y, x) mesh, panel (i, j) = slice (row_i, col_j)), colours = the chosen colormap at the
normalised z / c value; the dataset is identical to its deep copy afterwards.
"""
import itertools

import numpy as np

from ..common import quiet, exc_sig

PID = "C17"
LEVEL = "exploration"
TECHNIQUE = ("runtime monitoring of drawn artists: every figure returned by the real plotting functions is inspected artist by "
             "artist and compared with an independent extraction of the series from the dataset (values are unique random floats, "
             "so a drawn array identifies its slice)")
RULE = ("seeded datasets (x: 2-8 points, z: 1-14 numeric/str values, optional row/col dims, NaN/+-inf patterns incl. all-NaN series, "
        "multi-variable y, y_err/x_err/c variables, x as coordinate or data variable, a 2-D x with a row per line for the auto_* forms incl. square shapes) x plot kind (lineplot, scatter, histogram, "
        "heatmap, auto_lineplot, auto_scatter, auto_histogram, auto_heatmap) x options (colors, colormap, reverse, log norm, markers, lines, "
        "legend/colorbar, error / colour variables with holes of their own, explicit vmin/vmax incl. 0, colour quantities whose minimum is exactly 0, log axes, zlabels, legend_reverse, legend_marker_alpha, spans, row/col grids); scatter colour variables on a logarithmic colour scale; series of 52-75 points with a glyph check; heat maps under a non-default rcParams pcolor.shading and with exactly one colour bar; colour maps given as Colormap objects; distinct by (kind, shape, "
        "options); non-trivial when >= 2 series or a 2-d mesh is drawn")
RULE += '; a quarter of the lineplot / scatter / histogram / heatmap figures and grids drawn from the dataset with its dimensions renamed to tolerance / method / drop; a third of the plain heat maps have an x or y dimension of exactly one entry (F73 repaired)'
ASSUMPTIONS = [
    "matplotlib backend only (Agg); artists are inspected, pixels are not",
    "the colormap objects are matplotlib's own (viridis, plasma, ...) or xyzpy's xyz_colormaps(None) for the default map (trusted lookup)",
    "a heat-map quad must contain the coordinate it stands for (how far it extends beyond is the library's choice); "
    "string or single-point heat-map axes are outside the statement's 'x-y mesh' and are not generated",
    "a histogram series without any finite value has no density; it is only required not to disturb the other series",
    "scatter points are compared as multisets of (x, y[, c]) per series; line points as exact sequences",
]
SHARDS = {"quick": 8, "thorough": 16}
MIN_REACH = {
    "figures_judged": {"quick": 300, "thorough": 5000},
    "heat_maps_whose_x_or_y_dimension_has_one_entry": {"quick": 2, "thorough": 30},
    "figures_whose_dimensions_are_named_like_selection_keywords": {"quick": 20, "thorough": 350},
    "series_compared": {"quick": 1200, "thorough": 20000},
    "colors_compared": {"quick": 500, "thorough": 8000},
    "scatter_colors_compared_on_a_log_scale": {"quick": 40, "thorough": 600},
    "scatter_series_of_more_than_51_points": {"quick": 8, "thorough": 150},
    "heat_maps_drawn_under_a_non_default_mesh_shading_setting": {"quick": 6, "thorough": 100},
    "colour_maps_given_as_colormap_objects": {"quick": 8, "thorough": 150},
    "heat_map_colour_bars_counted": {"quick": 8, "thorough": 150},
    "panels_compared": {"quick": 150, "thorough": 2500},
    "hist_series_compared": {"quick": 80, "thorough": 1200},
    "heatmap_cells_compared": {"quick": 500, "thorough": 8000},
    "heatmap_norms_compared": {"quick": 15, "thorough": 250},
    "heatmap_colour_maps_compared": {"quick": 4, "thorough": 80},
    "heatmaps_on_unevenly_spaced_axes": {"quick": 3, "thorough": 60},
    "figures_drawn_after_a_failed_plot_call": {"quick": 5, "thorough": 100},
    "panel_titles_read_back": {"quick": 70, "thorough": 1500},
    "histograms_with_explicit_axis_limits": {"quick": 5, "thorough": 100},
    "explicit_colour_limits": {"quick": 8, "thorough": 150},
    "auto_plots_with_x_values_per_line_and_square_shape": {"quick": 2, "thorough": 50},
}
TIME_BUDGET = {"quick": 500, "thorough": 3400}
KINDS = ["lineplot", "lineplot", "scatter", "scatter", "histogram", "heatmap", "lineplot_grid", "scatter_grid", "heatmap_grid",
         "histogram_grid", "auto_lineplot", "auto_scatter", "auto_histogram", "auto_heatmap", "lineplot_multivar", "lineplot_c",
         "scatter_2d"]


def cases(ctx):
    rng = ctx.rng("cases")
    for i in range(ctx.pick(330, 5200)):
        kind = KINDS[i % len(KINDS)]
        nz = rng.choice([1, 2, 3, 3, 5, 9, 10, 11, 14]) if "heatmap" not in kind else rng.randint(2, 6)
        nx = rng.randint(2, 8)
        if kind.startswith("auto") and nx == nz:
            nx = nx + 1          # auto_* transposes y when the sizes are ambiguous (documented)
        c = {"kind": kind, "nx": nx, "nz": nz, "ztype": rng.choice(["int", "float", "str", "int"]),
             "zorder": rng.choice(["asc", "shuffled", "desc"]), "xorder": rng.choice(["asc", "asc", "desc", "shuffled"]),
             "nan": rng.choice(["none", "some", "some", "inf", "allnan_series", "mixed"]), "dseed": rng.randint(0, 10 ** 9),
             "nr": rng.randint(1, 3), "nc": rng.randint(1, 3), "use_row": rng.random() < 0.7, "use_col": rng.random() < 0.7,
             "uniform": rng.random() < 0.8, "xvar": rng.random() < 0.3, "err": rng.choice([None, None, "y", "x", "xy"]),
             "dimorder_seed": rng.randint(0, 999)}
        if kind == "heatmap" and c["dseed"] % 3 == 1:
            # DEGENERATE mesh: the x or the y dimension has exactly ONE entry (a 1 x N strip): still a mesh of N cells
            c["nx" if c["dseed"] % 2 else "nz"] = 1
        if kind in ("scatter", "auto_scatter", "lineplot", "scatter_grid") and c["dseed"] % 7 == 3:
            # LONG series (52-75 points: beyond the length up to which markers are drawn by default on lines)
            c["nx"] = 52 + c["dseed"] % 24
        if kind in ("auto_lineplot", "auto_scatter") and c["dseed"] % 5 < 2:
            # x values of its own for every line (2-D x of the same shape as y): nothing ambiguous about the orientation
            # then, also when there are as many lines as points per line
            c["x2d"] = True
            if c["dseed"] % 3 and nz >= 2:
                c["nx"] = nz
        o = {}
        r = rng.random()
        if r < 0.3:
            o["colors"] = True
            o["colormap"] = rng.choice(["viridis", "plasma", "cividis", None, "magma"])
            if rng.random() < 0.3:
                o["colormap_reverse"] = True
            if rng.random() < 0.2:
                o["colormap_log"] = True
        elif r < 0.4:
            o["colors"] = rng.choice([["red", "blue", "green"], ["k", "c"], [(0.1, 0.2, 0.3), (0.5, 0.5, 0.9)]])
        if rng.random() < 0.25:
            o["markers"] = rng.choice([True, False, ["s", "^"], None])
        if rng.random() < 0.15:
            o["lines"] = False
        if rng.random() < 0.2:
            o["legend"] = rng.choice([True, False])
        if rng.random() < 0.2:
            o["colorbar"] = rng.choice([True, False]) if o.get("colors") is True else False
        if rng.random() < 0.15:
            o["legend_reverse"] = True
        if rng.random() < 0.15:
            o["legend_marker_alpha"] = 0.5
        if rng.random() < 0.15:
            o["zlabels"] = "custom"
        if rng.random() < 0.15:
            o["ylog"] = True
        if rng.random() < 0.1:
            o["xlog"] = True
        if rng.random() < 0.15:
            o["vlines"] = [0.5]
            o["hlines"] = [0.25, 0.75]
        if rng.random() < 0.15:
            o["title"] = "T%d" % i
            o["ztitle"] = "zed"
        if rng.random() < 0.15:
            o["line_styles"] = ["--", ":"]
            o["line_widths"] = [0.5, 2.0]
        if kind.startswith("histogram") or kind == "auto_histogram":
            o["bins"] = rng.choice([5, 10, 30, "edges"])
            if c["dseed"] % 3 == 0 and not o.get("xlog"):       # (a log axis cannot show the negative limit)
                # explicit axis limits narrower than the data: they set the view, not what is binned
                o["xlims"] = (-0.5, 0.75)
        if kind in ("scatter", "scatter_grid") and c["dseed"] % 3 == 0 and (c["dseed"] // 3) % 3 == 1:
            # points coloured by a separate quantity on a logarithmic colour scale
            o["colormap_log"] = True
        # the colour-mapped quantity starts at exactly 0 (count-like data), and explicit colour limits incl. 0
        c["zero_floor"] = rng.random() < 0.3
        c["dup_z"] = rng.random() < 0.15
        mapped = ("heatmap" in kind and not kind.startswith("auto")) or kind == "lineplot_c" or \
            (kind in ("scatter", "scatter_grid") and c["dseed"] % 3 == 0) or \
            (kind in ("lineplot", "lineplot_grid", "scatter", "scatter_grid") and o.get("colors") is True and c["ztype"] != "str")
        if mapped and not o.get("colormap_log") and rng.random() < 0.3:
            lo = rng.choice([0, 0, 0.0, 0.5, -1.0, None])
            hi = rng.choice([None, None, 0, 2.0, 3.5])
            if lo is not None and hi is not None and hi <= lo:
                hi = None
            if lo is not None:
                o["vmin"] = lo
            if hi is not None:
                o["vmax"] = hi
        c["opts"] = o
        yield c


# --------------------------------------------------------------------------- #
# dataset construction
# --------------------------------------------------------------------------- #

def _axis(rng, n, typ, order, uniform=True, lo=1.0):
    if typ == "str":
        vals = ["k%d" % i for i in range(n)]
    elif typ == "int":
        vals = [int(lo) + 2 * i for i in range(n)]
    else:
        step = 0.5
        vals = [round(lo + step * i, 4) for i in range(n)] if uniform else \
            np.round(lo + np.cumsum(rng.uniform(0.2, 1.5, n)), 4).tolist()
    if order == "desc":
        vals = vals[::-1]
    elif order == "shuffled":
        vals = [vals[i] for i in rng.permutation(n)]
    return vals


def build(case):
    import xarray as xr
    rng = np.random.default_rng(case["dseed"])
    kind = case["kind"]
    grid = kind.endswith("_grid")
    o = case["opts"]
    positive = o.get("ylog") or o.get("xlog")
    nx, nz = case["nx"], case["nz"]
    x = _axis(rng, nx, "float", case["xorder"] if "heatmap" in kind or not case["xvar"] else "asc", case["uniform"], lo=1.0)
    ztype = case["ztype"] if "heatmap" not in kind else "float"
    if o.get("colormap_log"):
        ztype = "int"
    z = _axis(rng, nz, ztype, case["zorder"], case["uniform"], lo=0.0 if case.get("zero_floor") and not o.get("colormap_log") else 1.0)
    if case.get("dup_z") and nz >= 3 and kind in ("lineplot", "scatter", "lineplot_grid", "scatter_grid"):
        z[nz - 2] = z[0]            # two entries along z carry the same label (two runs concatenated): each is its own series
    coords = {"x": x, "z": z}
    dims = ["z", "x"]
    if grid:
        # (row / col coordinates in any order: ascending, descending or shuffled, numbers or strings)
        gorders = ["asc", "desc", "shuffled"]
        if case["use_row"] or not case["use_col"]:
            coords["r"] = _axis(rng, case["nr"], ["float", "str"][case["dseed"] % 2], gorders[case["dseed"] % 3], lo=0.5)
            if coords["r"] and not isinstance(coords["r"][0], str) and case["dseed"] % 5 == 3:
                coords["r"] = [round(v * 1e-5, 9) for v in coords["r"]]       # small magnitudes (a learning rate, a tolerance)
            if coords["r"] and isinstance(coords["r"][0], str):
                coords["r"] = [["small", "medium", "large", "xl"][int(v[1:])] for v in coords["r"]]
            dims.insert(0, "r")
        if case["use_col"]:
            coords["c"] = _axis(rng, case["nc"], rng.choice(["str", "int"]), gorders[(case["dseed"] // 3) % 3], lo=3)
            dims.insert(0, "c")
    # random dimension order of the stored variable
    prm = np.random.default_rng(case["dimorder_seed"]).permutation(len(dims))
    dims = [dims[i] for i in prm]
    shape = tuple(len(coords[d]) for d in dims)

    def values():
        v = rng.normal(size=shape)
        if positive:
            v = np.abs(v) + 0.05
            if case["dseed"] % 2:
                # finite values that have no position on a log axis (an error that converged to exactly 0, a signed
                # residual) are data all the same: they belong to the drawn series
                m = rng.random(shape) < 0.2
                v[m] = np.where(rng.random(int(m.sum())) < 0.5, 0.0, -v[m])
        return v

    def holes(v):
        pat = case["nan"]
        if pat in ("some", "mixed"):
            v[rng.random(shape) < 0.2] = np.nan
        if pat in ("inf", "mixed"):
            v[rng.random(shape) < 0.1] = np.inf
            v[rng.random(shape) < 0.05] = -np.inf
        if pat in ("allnan_series", "mixed") and nz > 1:
            idx = [slice(None)] * len(dims)
            idx[dims.index("z")] = int(rng.integers(0, nz))
            v[tuple(idx)] = np.nan
        return v
    data = {"y": (tuple(dims), holes(values()))}
    if case.get("zero_floor") and "heatmap" in kind:
        yv = data["y"][1]
        fin = yv[np.isfinite(yv)]
        if fin.size:
            yv -= fin.min()             # the smallest shown value is exactly 0.0 (in one panel of a grid only)
    if kind == "lineplot_multivar":
        data["y2"] = (tuple(dims), holes(values()))
        data["y3"] = (tuple(dims), values())
    if case["err"] and kind in ("lineplot", "lineplot_grid", "scatter"):
        if "y" in case["err"]:
            data["ye"] = (tuple(dims), np.abs(values()) * 0.1)
            if case["dseed"] % 2:
                data["ye"][1][rng.random(shape) < 0.2] = np.nan     # an error that is unknown where the point itself is known
        if "x" in case["err"]:
            data["xe"] = (tuple(dims), np.abs(values()) * 0.1)
            if case["dseed"] % 2:
                data["xe"][1][rng.random(shape) < 0.2] = np.nan
    if case["xvar"] and kind in ("scatter", "lineplot"):
        xv = values()
        if case["nan"] != "none":
            xv[rng.random(shape) < 0.1] = np.nan
        data["xv"] = (tuple(dims), xv)
    if kind == "lineplot_c":
        cz = rng.normal(size=nz) * 3
        if o.get("colormap_log"):
            cz = np.abs(cz) + 0.1
        elif case.get("zero_floor"):
            cz = cz - cz.min()
        data["cc"] = (("z",), cz)
    if kind == "scatter_2d":
        # x and y are data variables over the same dimensions (p, q) [and z] but STORED in different dimension orders,
        # with equal lengths half of the time (label-wise pairing is what must be drawn)
        npq = int(rng.integers(2, 5))
        nq = npq if case["dseed"] % 2 else int(rng.integers(2, 5))
        coords["p"] = _axis(rng, npq, "int", "asc", lo=1)
        coords["q"] = _axis(rng, nq, "int", "asc", lo=10)
        shp = {"p": npq, "q": nq, "z": nz}
        orders = [("z", "p", "q"), ("q", "z", "p"), ("p", "q", "z"), ("q", "p", "z")]
        du = orders[case["dimorder_seed"] % 4]
        dv = orders[(case["dimorder_seed"] // 4 + 1) % 4]
        u = rng.normal(size=tuple(shp[d] for d in du))
        v = rng.normal(size=tuple(shp[d] for d in dv))
        if case["nan"] != "none":
            v[rng.random(v.shape) < 0.15] = np.nan
            u[rng.random(u.shape) < 0.1] = np.nan
        data = {"u": (du, u), "y": (dv, v)}
        if case["dseed"] % 3 == 0:
            data["w1"] = (("p",), rng.normal(size=npq))       # a variable over p only, against one over q only
            data["w2"] = (("q",), rng.normal(size=nq))
        coords.pop("x", None)
        return xr.Dataset(data, coords=coords)
    if kind in ("scatter", "scatter_grid") and case["dseed"] % 3 == 0:
        cv = values()
        if o.get("colormap_log"):
            cv = np.abs(cv) + 0.1
        elif case.get("zero_floor"):
            cv = cv - cv.min()
        if case["dseed"] % 2 and not o.get("colormap_log"):
            cv = np.array(cv, dtype=float)
            cv[rng.random(shape) < 0.15] = np.nan          # a colour quantity that is unknown at some drawn points
        data["cv"] = (tuple(dims), cv)
    return xr.Dataset(data, coords=coords)


def finite_pairs(*arrs):
    m = np.ones(arrs[0].shape, dtype=bool)
    for a in arrs[:2]:
        m &= np.isfinite(a)
    return [a[m] for a in arrs]


def series_of(ds, xname, yname, zval, extra=(), zidx=None):
    """Independent extraction of one series: flattened (x, y, extras...) with x and y finite."""
    import xarray as xr
    sub = ds if zval is None else (ds.isel(z=zidx) if zidx is not None else ds.sel(z=zval))
    das = [sub[xname], sub[yname]] + [sub[e] for e in extra]
    b = xr.broadcast(*das)
    flat = [np.asarray(a.values, dtype=float).ravel() for a in b]
    return finite_pairs(*flat)


def rgba_close(a, b, tol=2e-3):
    import matplotlib.colors as mc
    a, b = mc.to_rgba(a), mc.to_rgba(b)
    return all(abs(p - q) <= tol for p, q in zip(a, b))


def expected_cmap(name, reverse):
    from xyzpy.plot.color import xyz_colormaps
    import matplotlib
    if name is None:
        return xyz_colormaps(None, reverse=reverse)
    cm = matplotlib.colormaps[name]
    return cm.reversed() if reverse else cm


def expected_series_colors(o, zvals, cvals=None):
    """RGBA per series, or None when the default colour cycle is used."""
    import matplotlib as mpl
    import matplotlib.colors as mc
    if cvals is None and o.get("colors") is not True:
        if o.get("colors"):
            cyc = [mc.to_rgba(c) for c in o["colors"]]
            return [cyc[i % len(cyc)] for i in range(len(zvals))]
        tab = [tuple(c) + (1.0,) for c in mpl.colormaps["tab10"].colors]
        return [tab[i % 10] for i in range(len(zvals))]
    cmap = expected_cmap(o.get("colormap"), o.get("colormap_reverse", False))
    vals = cvals if cvals is not None else zvals
    numeric = all(isinstance(v, (int, float, np.integer, np.floating)) for v in vals)
    if not numeric:
        return [cmap(t) for t in np.linspace(0, 1, len(vals))]
    lo, hi = float(min(vals)), float(max(vals))
    lo = lo if o.get("vmin") is None else float(o["vmin"])
    hi = hi if o.get("vmax") is None else float(o["vmax"])
    norm = (mc.LogNorm if o.get("colormap_log") else mc.Normalize)(vmin=lo, vmax=hi)
    return [cmap(norm(v)) for v in vals]


# --------------------------------------------------------------------------- #
# judging one axes
# --------------------------------------------------------------------------- #

def series_lines(ax, o):
    """The Line2D artists that are data series (spans from vlines/hlines excluded)."""
    out = []
    in_containers = set()
    for c in ax.containers:
        in_containers.add(id(c.lines[0]))
        for grp in c.lines[1:]:
            for a in (grp or ()):
                in_containers.add(id(a))
    for l in ax.lines:
        if id(l) in in_containers:
            continue
        if o.get("vlines") is not None and l.get_linestyle() == "--" and l.get_color() == "0.5":
            continue
        out.append(l)
    return out


def judge_line_axes(ctx, ax, ds, case, o, xname, ynames, zvals, kind, labels, want_colors, errs):
    """Compare the series drawn in `ax` with the dataset `ds` (already sliced to the panel)."""
    import matplotlib.colors as mc
    bad = []
    multivar = len(ynames) > 1
    nser = len(ynames) if multivar else len(zvals)
    ds_full_c = case.get("_all_c")
    if kind == "scatter":
        arts = list(ax.collections)
    elif errs:
        arts = list(ax.containers)
    else:
        arts = series_lines(ax, o)
    if len(arts) != nser:
        return ["%d series drawn for %d z values / variables" % (len(arts), nser)]
    for i in range(nser):
        yname = ynames[i] if multivar else ynames[0]
        zval = None if (multivar or zvals == [None]) else zvals[i]
        extra = [e for e in errs] + (["cv"] if (kind == "scatter" and "cv" in ds and o.get("_c")) else [])
        exp = series_of(ds, xname, yname, zval, extra, zidx=(i if (zval is not None and len(set(map(repr, zvals))) < len(zvals)) else None))
        art = arts[i]
        if kind == "scatter":
            off = np.asarray(art.get_offsets(), dtype=float).reshape(-1, 2)
            got = sorted(map(tuple, off.tolist()))
            want = sorted(zip(exp[0].tolist(), exp[1].tolist()))
            lbl = art.get_label()
            col = art.get_facecolors()
            if len(off) and (not art.get_paths() or not len(art.get_paths()[0].vertices) or not art.get_visible()
                             or not np.all(np.asarray(art.get_sizes(), dtype=float) > 0)):
                bad.append("series %d: its %d points are stamped with an empty / invisible marker - nothing is drawn for them" % (i, len(off)))
            if len(off) > 51:
                ctx.count("scatter_series_of_more_than_51_points")
            if o.get("_c") and "cv" in ds:
                arr = art.get_array()
                nn = lambda t: tuple("nan" if v != v else v for v in t)      # noqa: E731  (NaN-safe sorting / comparing)
                gotc = sorted(map(nn, zip(off[:, 0].tolist(), off[:, 1].tolist(), np.ma.filled(np.ma.asarray(arr, dtype=float), np.nan).tolist())),
                              key=repr) if arr is not None else None
                wantc = sorted(map(nn, zip(exp[0].tolist(), exp[1].tolist(), exp[-1].tolist())), key=repr)
                if gotc != wantc:
                    bad.append("series %d: colour values attached to the points are not the c variable at those points" % i)
                elif arr is not None and len(arr) and np.isfinite(np.ma.filled(np.ma.asarray(arr, dtype=float), np.nan)).all():
                    # the colours really drawn: chosen colormap at the plot-wide normalised value
                    allc = np.asarray(ds_full_c, dtype=float)
                    allc = allc[np.isfinite(allc)]
                    glo = float(allc.min()) if o.get("vmin") is None else float(o["vmin"])
                    ghi = float(allc.max()) if o.get("vmax") is None else float(o["vmax"])
                    gnorm = (mc.LogNorm if o.get("colormap_log") else mc.Normalize)(vmin=glo, vmax=ghi)
                    cm_ = expected_cmap(o.get("colormap"), o.get("colormap_reverse", False))
                    drawn = art.to_rgba(np.asarray(arr, dtype=float))
                    wanted = cm_(gnorm(np.asarray(arr, dtype=float)))
                    ctx.count("colors_compared", len(arr))
                    if o.get("colormap_log"):
                        ctx.count("scatter_colors_compared_on_a_log_scale", len(arr))
                    if not np.allclose(drawn[:, :3], wanted[:, :3], atol=2e-3):
                        bad.append("series %d: points are coloured with a normalisation of their own (%.4g..%.4g) instead of the plot-wide one (%.4g..%.4g) shown by the colour bar" % (
                            i, art.norm.vmin, art.norm.vmax, gnorm.vmin, gnorm.vmax))
        else:
            line = art.lines[0] if errs else art
            got = list(zip(np.asarray(line.get_xdata(), dtype=float).tolist(), np.asarray(line.get_ydata(), dtype=float).tolist()))
            want = list(zip(exp[0].tolist(), exp[1].tolist()))
            lbl = art.get_label()
            col = line.get_color()
            if errs and len(want):
                segs = [s for grp in art.lines[2] for s in grp.get_segments()]
                exp_segs = []
                for j, e in enumerate(errs):
                    ev = exp[2 + j]
                    for (xx, yy), ee in zip(want, ev.tolist()):
                        if e == "xe":
                            exp_segs.append(((xx - ee, yy), (xx + ee, yy)))
                        else:
                            exp_segs.append(((xx, yy - ee), (xx, yy + ee)))
                # (a point whose error is unknown has no bar: segments with a NaN end are left out on both sides)
                segs = [s for s in segs if len(s) == 2 and np.isfinite(np.asarray(s, dtype=float)).all()]
                exp_segs = [s for s in exp_segs if np.isfinite(np.asarray(s, dtype=float)).all()]
                gs = sorted(tuple(map(tuple, np.round(np.asarray(s, dtype=float), 9).tolist())) for s in segs)
                es = sorted(tuple(map(tuple, np.round(np.asarray(s, dtype=float), 9).tolist())) for s in exp_segs)
                if gs != es:
                    bad.append("series %d: error bars do not span value -+ error at the drawn points" % i)
        ctx.count("series_compared")
        if got != want:
            bad.append("series %d (%s) draws %d points %s..., the dataset has %d finite (x, y) pairs %s..." % (
                i, "z=%r" % (zval,) if zval is not None else yname, len(got), got[:3], len(want), want[:3]))
        if labels is not None and labels[i] is not None and lbl != labels[i]:
            bad.append("series %d is labelled %r, expected %r" % (i, lbl, labels[i]))
        if want_colors is not None and not (kind == "scatter" and o.get("_c")):
            ctx.count("colors_compared")
            c0 = col[0] if (kind == "scatter" and len(col)) else col
            if kind == "scatter" and not len(col):
                continue
            if not rgba_close(c0, want_colors[i]):
                bad.append("series %d is drawn in colour %s, expected %s" % (i, tuple(np.round(c0, 3)), tuple(np.round(want_colors[i], 3))))
    return bad


def _auto_x(case, ds):
    """The x argument of auto_lineplot / auto_scatter: the shared 1-D axis, or (x2d) a row of its own per line."""
    x = np.asarray(ds["x"].values, dtype=float)
    if not case.get("x2d"):
        return x
    nz = ds.sizes["z"]
    return x[None, :] + 0.25 * np.arange(nz)[:, None]


def hist_heights(poly):
    xy = np.asarray(poly.get_xy(), dtype=float)
    n = (len(xy) - 1) // 4          # stepfilled polygon: 2n+2 points up, 2n-1 back
    edges = xy[0:2 * n + 2:2, 0]
    heights = xy[1:2 * n + 1:2, 1]
    return edges, heights


def run_case(ctx, case):
    import xyzpy
    import matplotlib.pyplot as plt
    import matplotlib.colors as mc
    kind = case["kind"]
    o = dict(case["opts"])
    ds = build(case)
    before = ds.copy(deep=True)
    zvals = ds["z"].values.tolist()
    grid = kind.endswith("_grid")
    base = kind.replace("_grid", "")
    sig = {"api": base, "grid": grid}
    bad = []
    if o.get("vmin") is not None or o.get("vmax") is not None:
        # explicit colour limits must leave a non-empty range together with the data's own limits (anything else is a
        # caller error): drop a limit that lies beyond the other end of the mapped quantity
        if "heatmap" in kind:
            q = np.asarray(ds["y"].values, dtype=float)
        elif kind == "lineplot_c":
            q = np.asarray(ds["cc"].values, dtype=float)
        elif "cv" in ds:
            q = np.asarray(ds["cv"].values, dtype=float)
        else:
            q = np.asarray(ds["z"].values, dtype=float)
        q = q[np.isfinite(q)]
        qlo, qhi = (float(q.min()), float(q.max())) if q.size else (0.0, 1.0)
        if o.get("vmin") is not None and not o["vmin"] < (qhi if o.get("vmax") is None else o["vmax"]):
            o.pop("vmin")
        if o.get("vmax") is not None and not o["vmax"] > (qlo if o.get("vmin") is None else o["vmin"]):
            o.pop("vmax")
        if "vmin" in o or "vmax" in o:
            ctx.count("explicit_colour_limits")
    kw = {k: v for k, v in o.items() if not k.startswith("_")}
    if isinstance(kw.get("colormap"), str) and case["dseed"] % 3 == 2:
        # the colour map is given as a Colormap OBJECT (matplotlib.colormaps[...]), not by its name
        import matplotlib
        kw["colormap"] = matplotlib.colormaps[kw["colormap"]]
        ctx.count("colour_maps_given_as_colormap_objects")
    if kw.get("zlabels") == "custom":
        kw["zlabels"] = ["L%d" % i for i in range(max(3, len(zvals)))]
    if kind == "lineplot_multivar" and kw.get("colorbar"):
        kw["colorbar"] = False      # no numeric quantity to map: a colour bar is not applicable
    if kw.get("bins") == "edges":
        kw["bins"] = [-3, -1, -0.5, 0, 0.5, 1, 3]
    if grid:
        if "r" in ds.dims:
            kw["row"] = "r"
        if "c" in ds.dims:
            kw["col"] = "c"
    # NAME COLLISION: the dimensions are called like keywords of xarray's own selection methods (a 'tolerance' swept over, a
    # 'method' compared, a 'drop' rate): names like any other. The library is handed the renamed dataset, the judge keeps
    # reading the data through the harness's own names
    nm = {"z": "z", "r": "r", "c": "c"}
    ds_call = ds
    if case["dseed"] % 4 == 2 and base in ("histogram", "lineplot", "scatter", "heatmap"):
        nm = {"z": "tolerance", "r": "method", "c": "drop"}
        ds_call = ds.rename({k_: v_ for k_, v_ in nm.items() if k_ in ds.dims or k_ in ds.coords})
        for k_ in ("row", "col"):
            if k_ in kw:
                kw[k_] = nm[kw[k_]]
        ctx.count("figures_whose_dimensions_are_named_like_selection_keywords")
    xname = "xv" if "xv" in ds else "x"
    ynames = ["y"]
    errs = []
    fig = None
    plt.close("all")
    if case["dseed"] % 6 == 4 and not grid and base in ("lineplot", "scatter", "histogram"):
        # an EARLIER plot call of this session failed part-way (matplotlib refuses a negative error bar at the second
        # series, after the first was drawn): whatever it left behind, this figure shows this call's data only
        import xarray as xr
        dbad = xr.Dataset({"y": (("z", "x"), [[1.0, 2.0], [3.0, 4.0]]), "ye": (("z", "x"), [[0.1, 0.1], [-0.5, 0.1]])},
                          coords={"x": [0.0, 1.0], "z": [10, 20]})
        try:
            with quiet():
                xyzpy.lineplot(dbad, "x", "y", "z", y_err="ye")
        except Exception:
            ctx.count("figures_drawn_after_a_failed_plot_call")
    import contextlib
    import matplotlib
    ambient = contextlib.nullcontext()
    if "heatmap" in base and case["dseed"] % 4 == 1:
        # the calling program has set matplotlib's default mesh shading for its own pcolormesh calls
        ambient = matplotlib.rc_context({"pcolor.shading": ["nearest", "gouraud", "flat"][case["dseed"] % 3]})
        ctx.count("heat_maps_drawn_under_a_non_default_mesh_shading_setting")
    try:
        with quiet(), ambient:
            if base in ("lineplot", "lineplot_c"):
                if "ye" in ds:
                    kw["y_err"] = "ye"
                    errs.append("ye")
                if "xe" in ds:
                    kw["x_err"] = "xe"
                    errs.append("xe")
                if base == "lineplot_c":
                    kw.pop("colors", None)
                    kw["c"] = "cc"
                    o["_cline"] = True
                fig = xyzpy.lineplot(ds_call, xname, "y", nm["z"], **kw)
                base = "lineplot"
            elif base == "lineplot_multivar":
                ynames = ["y", "y2", "y3"]
                sel = ds.isel(z=0)
                ds_used = sel
                fig = xyzpy.lineplot(sel, "x", ynames, **kw)
                base = "lineplot"
            elif base == "scatter_2d":
                use_z = case["dseed"] % 4 != 1
                if not use_z and kw.get("colors") is True:
                    # colour-mapping needs a z coordinate (or c): not applicable to a single unlabelled series
                    kw.pop("colors")
                    o.pop("colors")
                if "w1" in ds and not use_z:
                    xname, ynames = "w1", ["w2"]
                    fig = xyzpy.scatter(ds, "w1", "w2", **{k: v for k, v in kw.items() if k in ("colors", "colormap", "markers", "legend", "title")})
                    zvals = [None]
                elif use_z:
                    xname = "u"
                    fig = xyzpy.scatter(ds, "u", "y", "z", **{k: v for k, v in kw.items() if k in ("colors", "colormap", "colormap_reverse", "markers", "legend", "title", "zlabels", "legend_reverse")})
                else:
                    xname = "u"
                    sel = ds.isel(z=0)
                    ds_used2 = sel
                    fig = xyzpy.scatter(sel, "u", "y", **{k: v for k, v in kw.items() if k in ("colors", "colormap", "markers", "legend", "title")})
                    zvals = [None]
                    ds = sel
                    before = sel.copy(deep=True)
                o = {k: v for k, v in o.items() if k in ("colors", "colormap", "colormap_reverse", "markers", "legend", "title", "zlabels", "legend_reverse", "_c")}
                if zvals == [None]:
                    if o.get("colors") is True:
                        raise AssertionError("unreachable")
                    o.pop("zlabels", None)
                    kw.pop("zlabels", None)
                    o.pop("legend_reverse", None)
                    kw.pop("legend_reverse", None)
                base = "scatter"
            elif base == "scatter":
                if "cv" in ds:
                    kw.pop("colors", None)
                    kw["c"] = "cv"
                    o["_c"] = True
                    case = dict(case, _all_c=np.asarray(ds["cv"].values, dtype=float).ravel().tolist())
                fig = xyzpy.scatter(ds_call, xname, "y", nm["z"], **kw)
            elif base == "histogram":
                fig = xyzpy.histogram(ds_call, "y", nm["z"], **kw)
            elif base == "heatmap":
                hk = {k: v for k, v in kw.items() if k in ("colormap", "colormap_reverse", "title", "row", "col", "colorbar", "vmin", "vmax")}
                fig = xyzpy.heatmap(ds_call, "x", nm["z"], "y", **{k_: (nm.get(v_, v_) if k_ in ("row", "col") and nm["z"] != "z" and v_ in ("r", "c") else v_) for k_, v_ in hk.items()})
            elif base == "auto_lineplot":
                o = {k: v for k, v in o.items() if k in ("colors", "colormap", "colormap_reverse", "markers", "legend")}
                fig = xyzpy.auto_lineplot(_auto_x(case, ds), ds["y"].transpose("z", "x").values, **o)
            elif base == "auto_scatter":
                o = {k: v for k, v in o.items() if k in ("colors", "colormap", "colormap_reverse", "legend")}
                fig = xyzpy.auto_scatter(_auto_x(case, ds), ds["y"].transpose("z", "x").values, **o)
            elif base == "auto_histogram":
                fig = xyzpy.auto_histogram(ds["y"].transpose("z", "x").values, bins=kw.get("bins", 30),
                                           **({"xlims": kw["xlims"]} if "xlims" in kw else {}))
            elif base == "auto_heatmap":
                fig = xyzpy.auto_heatmap(ds["y"].transpose("z", "x").values)
    except Exception as e:
        opt_keys = sorted(k for k in kw if k not in ("row", "col"))
        ctx.violation(case, "%s(%s) raised %r" % (kind, opt_keys, e), dict(sig, oracle="no-exception", opts=",".join(opt_keys)[:80], **exc_sig(e)))
        plt.close("all")
        ctx.observe(case, nontrivial=False)
        return
    ctx.count("figures_judged")
    if not ds.identical(before):
        bad.append("the dataset passed in was modified by plotting")

    # ------------------------------------------------------------------ expected colours / labels
    multivar = len(ynames) > 1
    if zvals == [None]:
        kw.pop("zlabels", None)
    ser_names = ynames if multivar else zvals
    labels = [None if s is None else str(s) for s in ser_names]
    if kw.get("zlabels"):
        labels = list(kw["zlabels"])[:len(labels)]
    try:
        if base in ("lineplot", "scatter", "auto_lineplot", "auto_scatter"):
            zv = ser_names if not base.startswith("auto") else list(range(len(zvals)))
            if o.get("_cline"):
                want_colors = expected_series_colors(dict(o, colors=True), zv, cvals=ds["cc"].values.tolist())
            elif base == "scatter" and o.get("_c"):
                want_colors = None          # (coloured point by point through the c variable: judged in judge_line_axes)
            else:
                want_colors = expected_series_colors(o, zv)
        else:
            want_colors = None
    except Exception as e:
        # (an error in the harness's own colour model must not silently switch the colour comparison off)
        want_colors = None
        ctx.count("expected_colour_model_errors")
        ctx.inconclusive_reason("the expected-colour model raised %r for %s" % (e, sorted(o)))

    # ------------------------------------------------------------------ panels
    def data_axes(f):
        return [a for a in f.axes if a.get_label() != "<colorbar>"]

    if fig is None:
        bad.append("no figure returned")
    elif not grid and base in ("lineplot", "scatter", "histogram") and len(data_axes(fig)) != 1:
        bad.append("the figure has %d data axes for one plot (something drawn by an earlier call is still in it)" % len(data_axes(fig)))
    elif base in ("lineplot", "scatter"):
        axes = data_axes(fig)
        if grid:
            rows = ds["r"].values.tolist() if "r" in ds.dims else [None]
            cols = ds["c"].values.tolist() if "c" in ds.dims else [None]
            if len(axes) != len(rows) * len(cols):
                bad.append("%d panels for a %dx%d grid" % (len(axes), len(rows), len(cols)))
            else:
                for (i, rv), (j, cv) in itertools.product(enumerate(rows), enumerate(cols)):
                    ax = axes[i * len(cols) + j]
                    sub = ds
                    if rv is not None:
                        sub = sub.sel(r=rv)
                    if cv is not None:
                        sub = sub.sel(c=cv)
                    b = judge_line_axes(ctx, ax, sub, case, o, xname, ynames, zvals, base, None, want_colors, errs)
                    ctx.count("panels_compared")
                    bad.extend("panel (row %r, col %r): %s" % (rv, cv, m) for m in b[:1])
                    if i == 0 and cv is not None:
                        ctx.count("panel_titles_read_back")
                        d = _names_coordinate(ax.get_title(), nm["c"], cv)
                        if d:
                            bad.append("panel (0, %d) is titled %r: %s" % (j, ax.get_title(), d))
                    if j == len(cols) - 1 and rv is not None:
                        ctx.count("panel_titles_read_back")
                        d = _names_coordinate(ax.get_ylabel(), nm["r"], rv)
                        if d:
                            bad.append("panel (%d, last) is labelled %r: %s" % (i, ax.get_ylabel(), d))
        else:
            used = ds.isel(z=0) if multivar else ds
            b = judge_line_axes(ctx, axes[0], used, case, o, xname, ynames, zvals if not multivar else [None], base, labels, want_colors, errs)
            bad.extend(b[:2])
            ctx.count("panels_compared")
            lg = axes[0].get_legend()
            if lg is not None and all(l is not None for l in labels):
                texts = [t.get_text() for t in lg.get_texts()]
                want = labels[::-1] if kw.get("legend_reverse") else labels
                if texts != want:
                    bad.append("legend entries %s, expected %s" % (texts, want))
            nser = len(labels)
            auto_legend = 1 < nser <= 10
            if "legend" not in kw and "colorbar" not in kw and not o.get("_c") and not o.get("_cline"):
                if auto_legend and lg is None:
                    bad.append("no legend for %d series" % nser)
                if kw.get("colors") is True and not auto_legend and nser > 1 and len(fig.axes) < 2:
                    bad.append("colour-mapped plot with %d series has neither legend nor colour bar" % nser)
    elif base in ("auto_lineplot", "auto_scatter"):
        import xarray as xr
        if case.get("x2d"):
            ads = xr.Dataset({"y": (("z", "_x"), ds["y"].transpose("z", "x").values), "x": (("z", "_x"), _auto_x(case, ds))},
                             coords={"z": np.arange(len(zvals))})
            ctx.count("auto_plots_with_x_values_per_line")
            if ds.sizes["x"] == len(zvals):
                ctx.count("auto_plots_with_x_values_per_line_and_square_shape")
        else:
            ads = xr.Dataset({"y": (("z", "x"), ds["y"].transpose("z", "x").values)},
                             coords={"x": np.asarray(ds["x"].values, dtype=float), "z": np.arange(len(zvals))})
        b = judge_line_axes(ctx, data_axes(fig)[0], ads, case, o, "x", ["y"], list(range(len(zvals))),
                            "scatter" if base == "auto_scatter" else "lineplot", [str(i) for i in range(len(zvals))], want_colors, [])
        bad.extend(b[:2])
        ctx.count("panels_compared")
    elif base in ("histogram", "auto_histogram"):
        axes = data_axes(fig)
        rows = ds["r"].values.tolist() if grid and "r" in ds.dims else [None]
        cols = ds["c"].values.tolist() if grid and "c" in ds.dims else [None]
        for (i, rv), (j, cv) in itertools.product(enumerate(rows), enumerate(cols)):
            ax = axes[i * len(cols) + j]
            sub = ds
            if rv is not None:
                sub = sub.sel(r=rv)
            if cv is not None:
                sub = sub.sel(c=cv)
            if base == "auto_histogram":
                samples = [np.asarray(ds["y"].values, dtype=float).ravel()]
                samples = [s[np.isfinite(s)] for s in samples]
                lbls = [None]
            else:
                samples = []
                for zv in zvals:
                    v = np.asarray(sub.sel(z=zv)["y"].values, dtype=float).ravel()
                    samples.append(v[np.isfinite(v)])
                lbls = [str(zv) for zv in zvals]
                if kw.get("zlabels"):
                    lbls = list(kw["zlabels"])[:len(zvals)]
            if all(len(s) == 0 for s in samples):
                ctx.count("hist_panels_with_empty_series")
                continue
            if any(len(s) == 0 for s in samples):
                # a series without any finite value has no density of its own: it is only required not to disturb the others
                ctx.count("hist_panels_with_empty_series")
            allv = np.concatenate(samples)
            if "xlims" in kw:
                ctx.count("histograms_with_explicit_axis_limits")
                if tuple(ax.get_xlim()) != tuple(kw["xlims"]):
                    bad.append("xlims=%r asked for, the axis shows %r" % (kw["xlims"], ax.get_xlim()))
            bins = kw.get("bins", 30)
            edges = np.histogram_bin_edges(allv, bins=bins)
            polys = {p.get_label(): p for p in ax.patches}
            plist = list(ax.patches)
            if len(plist) != len(samples):
                bad.append("%d histogram polygons for %d series" % (len(plist), len(samples)))
                continue
            for k, (s, lb) in enumerate(zip(samples, lbls)):
                if len(s) == 0:
                    continue
                poly = polys.get(lb) if lb is not None and lb in polys else plist[k]
                e2, h2 = hist_heights(poly)
                want_h, _ = np.histogram(s, bins=edges, density=True)
                ctx.count("hist_series_compared")
                if len(h2) != len(want_h) or not np.allclose(e2, edges, rtol=1e-9, atol=1e-12) or not np.allclose(h2, want_h, rtol=1e-9, atol=1e-12, equal_nan=True):      # (no value inside the edges: 0/0 densities both ways)
                    bad.append("histogram of series %r does not bin its %d finite values (drawn heights %s, np.histogram %s)" % (
                        lb, len(s), np.round(h2[:5], 4).tolist(), np.round(want_h[:5], 4).tolist()))
                    break
            ctx.count("panels_compared")
    elif base in ("heatmap", "auto_heatmap"):
        axes = data_axes(fig)
        if base == "heatmap" and not grid and kw.get("colorbar", True) is not False:
            # the colour scale of a heat map is shown by ITS colour bar: one, in this figure
            ncb = len([a for a in fig.axes if a.get_label() == "<colorbar>"])
            ctx.count("heat_map_colour_bars_counted")
            if ncb != 1:
                bad.append("the heat map's figure has %d colour bars (the colour scale is not shown / shown twice)" % ncb)
        rows = ds["r"].values.tolist() if grid and "r" in ds.dims else [None]
        cols = ds["c"].values.tolist() if grid and "c" in ds.dims else [None]
        for (i, rv), (j, cv) in itertools.product(enumerate(rows), enumerate(cols)):
            if i * len(cols) + j >= len(axes):
                bad.append("missing heat-map panel (%d, %d)" % (i, j))
                break
            ax = axes[i * len(cols) + j]
            sub = ds
            if rv is not None:
                sub = sub.sel(r=rv)
            if cv is not None:
                sub = sub.sel(c=cv)
            meshes = [c for c in ax.collections if type(c).__name__ == "QuadMesh"]
            if len(meshes) != 1:
                bad.append("%d meshes in heat-map panel" % len(meshes))
                continue
            mesh = meshes[0]
            ally = np.asarray(ds["y"].values, dtype=float)
            if base == "heatmap" and np.isfinite(ally[~np.isnan(ally)]).all() and np.isfinite(ally).any():
                # every panel is coloured over the plot-wide range (what a shared colour bar shows), or the explicit limits
                wlo = float(np.nanmin(ally)) if o.get("vmin") is None else float(o["vmin"])
                whi = float(np.nanmax(ally)) if o.get("vmax") is None else float(o["vmax"])
                ctx.count("heatmap_norms_compared")
                if wlo < whi and not (mesh.norm.vmin == wlo and mesh.norm.vmax == whi):      # (a single value has no range: matplotlib widens it)
                    bad.append("heat-map panel (%d, %d) is colour-normalised over (%r, %r) instead of (%r, %r)" % (
                        i, j, mesh.norm.vmin, mesh.norm.vmax, wlo, whi))
                    break
            if base == "heatmap" and "colormap" in o:
                # the colours of the mesh are the CHOSEN colour map (reversed if asked) at the normalised values
                cm_ = expected_cmap(o.get("colormap"), bool(o.get("colormap_reverse")))
                probe_v = np.linspace(0.0, 1.0, 7)
                ctx.count("heatmap_colour_maps_compared")
                if not np.allclose(np.asarray(mesh.cmap(probe_v))[:, :3], np.asarray(cm_(probe_v))[:, :3], atol=2e-3):
                    bad.append("heat-map panel (%d, %d) is drawn with colour map %r, chosen: %r%s" % (
                        i, j, getattr(mesh.cmap, "name", mesh.cmap), o.get("colormap"), " reversed" if o.get("colormap_reverse") else ""))
                    break
            arr = np.ma.masked_invalid(np.ma.asarray(mesh.get_array(), dtype=float))
            coords_xy = np.asarray(mesh.get_coordinates(), dtype=float)
            if base == "auto_heatmap":
                # auto_xyz_ds(x): variable 'x' over dims (y, z); plotted with x='y', y='z'
                Z = np.asarray(ds["y"].transpose("z", "x").values, dtype=float).T
                xs = np.arange(Z.shape[1], dtype=float)
                ys = np.arange(Z.shape[0], dtype=float)
            else:
                Z = np.asarray(sub["y"].transpose("z", "x").values, dtype=float)
                xs = np.asarray(sub["x"].values, dtype=float)
                ys = np.asarray(sub["z"].values, dtype=float)
            if 1 in Z.shape and base == "heatmap":
                ctx.count("heat_maps_whose_x_or_y_dimension_has_one_entry")
            if arr.shape != Z.shape:
                arr = arr.reshape(coords_xy.shape[0] - 1, coords_xy.shape[1] - 1)
            if arr.shape != Z.shape:
                bad.append("heat-map mesh has shape %s for a %s grid" % (arr.shape, Z.shape))
                break
            # which coordinate does each mesh column / row stand for?  By geometry: the k-th quad from the
            # left stands for the k-th smallest x (the quads tile the axis), likewise for y
            cx = 0.5 * (coords_xy[0, :-1, 0] + coords_xy[0, 1:, 0])
            cy = 0.5 * (coords_xy[:-1, 0, 1] + coords_xy[1:, 0, 1])
            col_of_rank = np.argsort(np.argsort(cx))       # mesh column -> rank
            row_of_rank = np.argsort(np.argsort(cy))
            xs_sorted_idx = np.argsort(xs)
            ys_sorted_idx = np.argsort(ys)
            ok_uniform = True       # (every quad contains the coordinate it stands for, on evenly AND unevenly spaced axes)
            if not case["uniform"] and base != "auto_heatmap":
                ctx.count("heatmaps_on_unevenly_spaced_axes")
            for a in range(Z.shape[0]):
                for b_ in range(Z.shape[1]):
                    ia = ys_sorted_idx[row_of_rank[a]]      # dataset index along y shown by mesh row a
                    ib = xs_sorted_idx[col_of_rank[b_]]
                    quad = [coords_xy[a, b_], coords_xy[a, b_ + 1], coords_xy[a + 1, b_ + 1], coords_xy[a + 1, b_]]
                    qx = [q[0] for q in quad]
                    qy = [q[1] for q in quad]
                    val = arr[a, b_]
                    want = Z[ia, ib]
                    ctx.count("heatmap_cells_compared")
                    if ok_uniform and not (min(qx) - 1e-9 <= xs[ib] <= max(qx) + 1e-9 and min(qy) - 1e-9 <= ys[ia] <= max(qy) + 1e-9):
                        bad.append("the quad standing for (x=%r, y=%r) spans x in [%g, %g], y in [%g, %g]: values are shown at the wrong place" % (
                            xs[ib], ys[ia], min(qx), max(qx), min(qy), max(qy)))
                        break
                    if np.isfinite(want):
                        if np.ma.is_masked(val) or float(val) != float(want):
                            bad.append("heat-map cell for (y=%r, x=%r) shows %r, the dataset has %r there" % (ys[ia], xs[ib], val, want))
                            break
                    elif not np.ma.is_masked(val):
                        bad.append("heat-map cell for (y=%r, x=%r) shows %r for a non-finite value" % (ys[ia], xs[ib], val))
                        break
                if bad:
                    break
            ctx.count("panels_compared")
            if bad:
                break
    plt.close("all")
    for msg in bad[:2]:
        ctx.violation(case, "%s: %s" % (kind, msg), dict(sig, oracle=" ".join(msg.split(" ")[:3]), opts=",".join(sorted(kw))[:80]))
    ctx.observe(case, key=(kind, case["nx"], case["nz"], case["ztype"], case["zorder"], case["xorder"], case["nan"], sorted(o), case["nr"], case["nc"],
                           case["use_row"], case["use_col"], case["err"], case["xvar"]),
                nontrivial=case["nz"] >= 2,
                info={"axes": len(fig.axes) if fig is not None else 0, "options": sorted(kw)})


def _names_coordinate(text, dim, coord):
    """Does the panel title / label '<dim> = <value>' name THIS coordinate?  Read back, not re-formatted: text labels must
    be shown as they are, numbers must read back as the coordinate to three significant digits (how many digits are
    shown is the library's choice, naming another number - e.g. 0.0 for 1e-5 - is not)."""
    head = "%s = " % dim
    if not text.startswith(head):
        return "does not start with %r" % head
    shown = text[len(head):]
    if isinstance(coord, (float, np.floating)):
        try:
            v = float(shown)
        except ValueError:
            return "%r is not a number, the coordinate is %r" % (shown, coord)
        if abs(v - float(coord)) > 2e-3 * abs(float(coord)):
            return "it reads as %r, the coordinate is %r" % (v, coord)
        return None
    return None if shown == str(coord) else "the coordinate is %r" % (coord,)
