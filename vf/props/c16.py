"""C16 -- generated cluster scripts and the grow CLI grow exactly the intended batches.

Events: the text of Crop.gen_cluster_script(...); `bash -n`; the program bash hands to the
launcher after heredoc expansion (captured by a `python` stub first on PATH, which then runs
it with the repo's interpreter and records its exit status); the crop directory before and
after every array index; the probe call log; the script's own exit status.
Oracle: shell syntax valid; embedded Python compiles; header array range == 1..(#intended
tasks); running the script once per index (or once, single mode) grows exactly the requested
ids -- or exactly those missing at generation (array) / at run time (single) -- each once;
afterwards the crop is ready and reaps exactly; xyzpy-grow grows exactly the missing batches.
"""
import os
import re
import sys
import stat
import subprocess

from .. import probe, cropkit
from ..common import quiet, exc_sig

PID = "C16"
LEVEL = "exploration"
TECHNIQUE = ("runtime monitoring of generated programs: every generated script is syntax-checked and EXECUTED with bash under stub "
             "scheduler variables; a launcher stub captures and compiles the embedded Python; call log and result files are compared "
             "with the intended batch ids")
RULE = ("schedulers {sge,pbs,slurm} x mode {array,single} x crop state {nothing grown, some grown, all but one grown} x batch_ids {None, "
        "explicit lists of length 1..B, tuple, int} x resource spellings (hours/minutes/seconds, time= str/number, gigabytes/mem, "
        "num_procs+num_workers, extra header flags, conda_env, launcher, setup code of one or several lines, debugging) on crops of 1-8 batches named by an absolute or a relative parent directory; array scripts with workers inside a batch; plus the "
        "xyzpy-grow command line; project directories containing a space or file-name pattern characters; array scripts for 12-15 batches; crop directories given as pathlib.Path; one generated script with all its executions is one case; distinct by option vector; "
        "non-trivial when >= 2 tasks are intended")
ASSUMPTIONS = [
    "scripts are run by bash with SGE_TASK_ID / PBS_ARRAY_INDEX / SLURM_ARRAY_TASK_ID set to each index of the header's array range; scheduler directives themselves are comments to bash",
    "the launcher stub runs the captured program with /venv/bin/python and the harness' PYTHONPATH (so the repository under test is what grows)",
    "wall-time / memory header values are not judged (the statement is about which batches are grown)",
]
SHARDS = {"quick": 16, "thorough": 16}
RULE += '; half of the crops take a second function argument called fn'
MIN_REACH = {
    "crops_named_by_a_relative_parent_dir": {"quick": 6, "thorough": 60},
    "crops_whose_function_takes_an_argument_called_fn": {"quick": 8, "thorough": 60},
    "array_scripts_for_a_dozen_and_more_batches": {"quick": 3, "thorough": 4},
    "crops_whose_directory_is_given_as_a_path_object": {"quick": 8, "thorough": 80},
    "scripts_for_a_project_directory_with_pattern_characters": {"quick": 5, "thorough": 40},
    "scripts_generated": {"quick": 40, "thorough": 400},
    "script_executions": {"quick": 35, "thorough": 400},
    "programs_compiled": {"quick": 35, "thorough": 400},
    "cli_runs": {"quick": 4, "thorough": 40},
    "single_scripts_run_after_the_crop_moved_on": {"quick": 1, "thorough": 8},
    "array_scripts_with_workers_inside_a_batch": {"quick": 3, "thorough": 30},
    "cli_runs_with_function_in_a_module_beside_the_crop": {"quick": 2, "thorough": 15},
    "partial_state_scripts": {"quick": 12, "thorough": 120},
    "scripts_with_set_up_code_of_several_lines": {"quick": 3, "thorough": 40},
    "crops_with_the_leftover_of_a_failed_result_write": {"quick": 6, "thorough": 60},
    "batch_ids_given_as_numpy_integers": {"quick": 2, "thorough": 40},
    "scripts_for_a_project_directory_with_a_space_and_a_local_module": {"quick": 4, "thorough": 40},
}
TIME_BUDGET = {"quick": 500, "thorough": 3400}
CASE_TIMEOUT = {"quick": 400, "thorough": 900}
NAME = "c16"
ENVVAR = {"sge": "SGE_TASK_ID", "pbs": "PBS_ARRAY_INDEX", "slurm": "SLURM_ARRAY_TASK_ID"}
HDR = {"sge": r"^#\$ -t (\d+)-(\d+)$", "pbs": r"^#PBS -J (\d+)-(\d+)$", "slurm": r"^#SBATCH --array=(\d+)-(\d+)$"}

STUB = """#!/bin/bash
# vf launcher stub: record the program handed to -c, run it with the repo's interpreter, record its status
n=$(ls "$VF_CAP" | wc -l)
prev=""
for a in "$@"; do
    if [ "$prev" = "-c" ]; then printf '%s' "$a" > "$VF_CAP/prog-$n.py"; fi
    prev="$a"
done
/venv/bin/python "$@"
rc=$?
echo $rc > "$VF_CAP/rc-$n"
exit $rc
"""


def cases(ctx):
    rng = ctx.rng("cases")
    idx = 0
    combos = [(s, m, st) for s in ("sge", "pbs", "slurm") for m in ("array", "single") for st in ("none", "some", "all_but_one")]
    for rep in range(ctx.pick(3, 24)):
        for (sch, mode, state) in combos:
            B = rng.randint(1, 8) if rep else [3, 4, 2][idx % 3]
            ids_kind = rng.choice(["none", "none", "list", "list", "tuple", "single_list", "int", "nparray", "npint"] if rep else ["none", "list"][idx % 2:idx % 2 + 1])
            c = {"scheduler": sch if rng.random() < 0.8 else sch.upper(), "mode": mode, "state": state, "B": B, "bs": rng.choice([1, 2]),
                 "ids_kind": ids_kind, "idx": idx, "oseed": rng.randint(0, 10 ** 9), "via_method": rng.random() < 0.3,
                 "rel_parent": rng.random() < 0.3}
            yield c
            idx += 1
    # crops of a dozen and more batches (two-digit task indices and array ranges)
    for k, (sch, state) in enumerate([("pbs", "none"), ("slurm", "some"), ("sge", "none"), ("pbs", "some")][:ctx.pick(3, 4)]):
        yield {"scheduler": sch, "mode": "array", "state": state, "B": 12 + k, "bs": 1, "ids_kind": "none", "idx": idx,
               "oseed": 4000 + k, "via_method": bool(k % 2), "rel_parent": False, "dozen": True}
        idx += 1
    for i in range(ctx.pick(6, 50)):
        yield {"cli": True, "B": rng.randint(1, 6), "bs": rng.choice([1, 2]), "state": rng.choice(["none", "some", "all_but_one"]),
               "num_workers": rng.choice([None, None, 2]), "idx": 10000 + i, "oseed": rng.randint(0, 10 ** 9),
               # the swept function lives in a module next to the crop (pickled by reference) and the tool is started
               # from another directory: --parent-dir is all it has to find it
               "user_module": i % 2 == 1}


def _options(rng, sch):
    o = {}
    r = rng.random()
    if r < 0.3:
        o["hours"] = rng.randint(0, 30)
        if rng.random() < 0.5:
            o["minutes"] = rng.randint(0, 59)
        if rng.random() < 0.3:
            o["seconds"] = rng.randint(0, 59)
    elif r < 0.5:
        o["time"] = rng.choice(["1:30:00", "12:00:00", 2, 0.5])
    if rng.random() < 0.5:
        o[rng.choice(["gigabytes", "mem"])] = rng.randint(1, 64)
    if rng.random() < 0.4:
        o["num_procs"] = rng.choice([1, 2, 4])
        if rng.random() < 0.4:
            o["num_threads"] = rng.choice([1, 2])
    if rng.random() < 0.3:
        o["num_nodes"] = 1
    if rng.random() < 0.3:
        o[rng.choice(["gpus", "constraint", "partition"])] = rng.choice([1, "fast", None, True])
    if rng.random() < 0.3:
        o["setup"] = rng.choice(["import os", "import sys; sys.dont_write_bytecode = True", "x = {'a': 1}  # braces",
                                 # set-up code of several lines, with blocks of its own
                                 "import os\nimport sys",
                                 "import os\nfor _i in range(2):\n    os.environ['VF_SETUP_%d' % _i] = '1'\n",
                                 "def _helper():\n    return 1\n\n_helper()"])
    if rng.random() < 0.3:
        o["shell_setup"] = rng.choice(["export FOO=bar", "echo hello", "set -e", "set -eu; export FOO=bar"])
    if rng.random() < 0.3:
        o["launcher"] = "python -u"
    if rng.random() < 0.2:
        o["debugging"] = True
    if rng.random() < 0.15:
        o["mpi"] = True
    o["conda_env"] = rng.choice([False, False, True, "myenv"])
    return o


def missing_debris(case):
    return case.get("oseed", case.get("B", 0)) % 3 == 1


def run_case(ctx, case):
    import xyzpy
    rng = ctx.rng("opts", case["oseed"])
    root = tmp = ctx.mkdtemp("c16")
    spaced = (not case.get("cli")) and case.get("idx", 0) % 5 == 2
    if spaced:
        # the project lives in a directory whose name contains a space, and the function to grow is defined in a module
        # that lies beside the crop (found because the script changes into that directory first)
        tmp = os.path.join(root, "my project")
        os.makedirs(tmp)
        ctx.count("scripts_for_a_project_directory_with_a_space_and_a_local_module")
    elif (not case.get("cli")) and (case.get("idx", 0) % 5 == 4 or (case.get("mode") == "array" and case["state"] != "none" and
                                                                     case.get("ids_kind") == "none" and case.get("idx", 0) % 2 == 0)):
        # ... or whose name contains characters that are special in file-name patterns
        tmp = os.path.join(root, "sweep[1]")
        os.makedirs(tmp)
        ctx.count("scripts_for_a_project_directory_with_pattern_characters")
    logfile = os.path.join(tmp, "calls.log")
    cap = os.path.join(tmp, "cap")
    bindir = os.path.join(tmp, "bin")
    os.makedirs(cap)
    os.makedirs(bindir)
    for nm, body in (("python", STUB), ("conda", "#!/bin/bash\nexit 0\n")):
        p = os.path.join(bindir, nm)
        with open(p, "w") as f:
            f.write(body)
        os.chmod(p, os.stat(p).st_mode | stat.S_IEXEC)
    env = dict(os.environ, PATH=bindir + ":" + os.environ["PATH"], VF_CAP=cap, HOME=tmp, VERIF_CHILD="1")
    for v in ENVVAR.values():
        env.pop(v, None)
    B_target, bs = case["B"], case["bs"]
    n = B_target * bs
    ctl = os.path.join(tmp, "ctl.json")
    # settings take different times, so completion order varies; where workers share one batch (array mode) the spread is
    # wider than the staggered start-up of the worker processes
    probe.write_ctl(ctl, jitter_us=300000 if (not case.get("cli") and case.get("mode") == "array" and case["idx"] % 3 == 0) else 2000,
                    jitter_seed=case["idx"])
    fn = probe.Probe("tuple:2", logfile=logfile, ctl=ctl, name="qprobe")
    if (case.get("cli") and case.get("user_module")) or spaced:
        import sys
        import importlib
        modname = "vf_usermod_%d_%d" % (case["idx"], os.getpid())
        with open(os.path.join(tmp, modname + ".py"), "w") as f:
            f.write("from vf.probe_core import probe_call\nLOG = %r\n\n\ndef qprobe(a):\n"
                    "    return probe_call({'a': a}, 'tuple:2', logfile=LOG)\n" % (logfile,))
        sys.path.insert(0, tmp)
        try:
            fn = importlib.import_module(modname).qprobe
        finally:
            sys.path.remove(tmp)
        if case.get("cli"):
            ctx.count("cli_runs_with_function_in_a_module_beside_the_crop")
    w = {"mode": "grid", "combos": [["a", list(range(1, n + 1))]], "names": None, "cases": None, "constants": {}}
    if isinstance(fn, probe.Probe) and case["idx"] % 2 == 0:
        # NAME COLLISION: the function also takes an argument called `fn` (which transformation to apply) - the name of
        # parameters of the pool's submit() and of the library's own helpers: an argument like any other
        w["combos"].append(["fn", ["square"]])
        ctx.count("crops_whose_function_takes_an_argument_called_fn")
    sig = {"api": "xyzpy-grow" if case.get("cli") else "gen_cluster_script", "scheduler": str(case.get("scheduler", "")).lower(),
           "mode": case.get("mode"), "state": case["state"], "ids_kind": case.get("ids_kind")}
    with quiet():
        crop = xyzpy.Crop(fn=fn, name=NAME, parent_dir=tmp, batchsize=bs)
        crop.sow_combos({a_: list(v_) for a_, v_ in w["combos"]}, verbosity=0)
    B = crop.num_batches
    allb = list(range(1, B + 1))
    pre = []
    if case["state"] == "some" and B > 1:
        pre = sorted(rng.sample(allb, rng.randint(1, B - 1)))
    elif case["state"] == "all_but_one" and B > 1:
        left_out = rng.choice(allb)
        pre = [b for b in allb if b != left_out]
    with quiet():
        if pre:
            crop.grow(pre)
    if missing_debris(case) and len(pre) < B:
        # an earlier grow of a still missing batch died while writing its result (disk full, a result that cannot be
        # stored): whatever the library's own writer left behind, that batch is still to be grown
        from xyzpy.gen import cropping as _cr
        from .c09 import _Unwritable
        k_ = [b for b in allb if b not in pre][0]
        try:
            _cr.write_to_disk(_Unwritable(), os.path.join(cropkit.crop_dir(tmp, NAME), "results", "xyz-result-%d.jbdmp" % k_))
        except Exception:
            pass
        ctx.count("crops_with_the_leftover_of_a_failed_result_write")
    log_off = probe.read_log(logfile)[1]
    batch_settings = {i: [probe.canon(kw) for kw in cropkit.read_pickle(p)] for i, p in cropkit.batch_files(tmp, NAME).items()}
    missing0 = [b for b in allb if b not in pre]
    bad = []

    def calls_since(off):
        recs, off2 = probe.read_log(logfile, off)
        return [r["k"] for r in recs], off2

    def expect_calls(batches):
        return sorted(k for b in batches for k in batch_settings[b])

    # ------------------------------------------------------------------ command line grower
    if case.get("cli"):
        args = ["/venv/bin/python", "/venv/bin/xyzpy-grow", NAME, "--parent-dir", tmp]
        if case["num_workers"]:
            args += ["--num-workers", str(case["num_workers"])]
        r = subprocess.run(args, env=env, cwd="/" if case.get("user_module") else tmp, capture_output=True, timeout=300)
        ctx.count("cli_runs")
        got, log_off = calls_since(log_off)
        if r.returncode != 0:
            bad.append("xyzpy-grow exited with %d: %s" % (r.returncode, r.stderr.decode(errors="replace")[-300:]))
        if sorted(got) != expect_calls(missing0):
            bad.append("xyzpy-grow evaluated %d settings, the missing batches %s hold %d" % (len(got), missing0, len(expect_calls(missing0))))
        _final(ctx, case, crop, w, bad, sig, tmp, allb)
        for msg in bad[:2]:
            ctx.violation(case, msg, dict(sig, oracle=" ".join(msg.split(" ")[:3]), user_module=bool(case.get("user_module"))))
        ctx.observe(case, key=("cli", B, case["state"], case["num_workers"], bool(case.get("user_module"))), nontrivial=len(missing0) >= 2,
                    info={"missing_before": missing0, "calls": len(got)})
        ctx.rmtree(root)
        return

    # ------------------------------------------------------------------ script generation
    sch = case["scheduler"]
    schl = sch.lower()
    opts = _options(rng, schl)
    if "\n" in str(opts.get("setup", "")):
        ctx.count("scripts_with_set_up_code_of_several_lines")
    opts["output_directory"] = os.path.join(tmp, "out")
    ids = None
    kind = case["ids_kind"]
    if kind in ("list", "tuple"):
        ids = rng.sample(allb, rng.randint(1, B))
        if kind == "tuple":
            ids = tuple(ids)
    elif kind == "single_list":
        ids = [rng.choice(allb)]
    elif kind == "int":
        ids = rng.choice(allb)
    elif kind == "nparray":
        # batch numbers picked with numpy (np.arange / np.flatnonzero of what is missing): numpy integers
        import numpy as np
        ids = np.array(sorted(rng.sample(allb, rng.randint(1, B))))
        ctx.count("batch_ids_given_as_numpy_integers")
    elif kind == "npint":
        import numpy as np
        ids = np.int64(rng.choice(allb))
        ctx.count("batch_ids_given_as_numpy_integers")
    if (opts.get("num_procs") and rng.random() < 0.3 and case["mode"] == "single") or (case["mode"] == "array" and case["idx"] % 3 == 0):
        # workers inside one job: single mode parallelises over batches, array mode over the settings of each batch
        opts["num_workers"] = 2 + case["idx"] % 2
        opts["num_procs"] = opts["num_workers"]
        if case["mode"] == "array":
            ctx.count("array_scripts_with_workers_inside_a_batch")
    intended = ([int(ids)] if not hasattr(ids, "__len__") else [int(i) for i in ids]) if ids is not None else (allb if not pre else missing0)
    cwd0 = os.getcwd()
    try:
        with quiet():
            pdir = tmp
            if case.get("rel_parent"):
                # the crop is named by a RELATIVE parent directory (as typed in a script run from the project folder); the
                # generated script is later executed from somewhere else entirely
                os.chdir(os.path.dirname(tmp))
                pdir = os.path.basename(tmp) if case["idx"] % 2 else os.path.join(".", os.path.basename(tmp))
                ctx.count("crops_named_by_a_relative_parent_dir")
            if case["idx"] % 3 == 1:
                # the crop's directory is given as a pathlib.Path (absolute, or relative like the str above)
                import pathlib
                pdir = pathlib.Path(pdir)
                ctx.count("crops_whose_directory_is_given_as_a_path_object")
            c2 = xyzpy.Crop(name=NAME, parent_dir=pdir)
            if case["via_method"]:
                script = getattr(c2, "gen_%s_script" % schl)(batch_ids=ids, mode=case["mode"], **opts)
            else:
                script = c2.gen_cluster_script(sch, ids, mode=case["mode"], **opts)
    except Exception as e:
        os.chdir(cwd0)
        ctx.violation(case, "gen_cluster_script(%r, %r, mode=%r, %s) raised %r" % (sch, ids, case["mode"], opts, e),
                      dict(sig, oracle="generation", **exc_sig(e)))
        ctx.rmtree(root)
        ctx.observe(case, nontrivial=False)
        return
    finally:
        os.chdir(cwd0)
    ctx.count("scripts_generated")
    if case.get("dozen"):
        ctx.count("array_scripts_for_a_dozen_and_more_batches")
    if case["mode"] == "single" and ids is None and len(intended) >= 2 and case["idx"] % 4 != 3:
        # between generating the script and running it, one of the missing batches gets grown some other way (the job is
        # resubmitted after a partial run, a colleague grows one by hand): a single-mode script for "whatever is
        # missing" must then leave that batch alone
        try:
            with quiet():
                xyzpy.Crop(name=NAME, parent_dir=tmp).grow(intended[0])
            log_off = probe.read_log(logfile, log_off)[1]
            pre = sorted(pre + [intended[0]])
            intended = intended[1:]
            ctx.count("single_scripts_run_after_the_crop_moved_on")
        except Exception as e:
            bad.append("growing a batch between generation and execution raised %r" % (e,))
    if pre:
        ctx.count("partial_state_scripts")
    spath = os.path.join(tmp, "job.sh")
    with open(spath, "w") as f:
        f.write(script)
    r = subprocess.run(["bash", "-n", spath], capture_output=True, timeout=60)
    if r.returncode != 0:
        bad.append("not a valid shell script: %s" % r.stderr.decode(errors="replace")[:200])
    # header array range
    m = [re.match(HDR[schl], line) for line in script.splitlines()]
    m = [x for x in m if x]
    indices = [None]
    if case["mode"] == "array":
        if m:
            lo, hi = int(m[0].group(1)), int(m[0].group(2))
            if (lo, hi) != (1, len(intended)):
                bad.append("header array range %d-%d for %d intended tasks %s" % (lo, hi, len(intended), intended))
            indices = list(range(lo, hi + 1))
        elif schl == "pbs" and len(intended) == 1:
            indices = [None]            # PBS cannot run arrays of size one: plain job
        else:
            bad.append("array script without an array range in its header")
            indices = list(range(1, len(intended) + 1))
    elif m:
        bad.append("single-mode script carries an array range")

    # ------------------------------------------------------------------ execution, once per index
    if not bad:
        for i in indices:
            e2 = dict(env)
            if i is not None:
                e2[ENVVAR[schl]] = str(i)
            before = set(cropkit.result_files(tmp, NAME))
            ncap = len(os.listdir(cap))
            r = subprocess.run(["bash", spath], env=e2, cwd="/", capture_output=True, timeout=300)
            ctx.count("script_executions")
            after = set(cropkit.result_files(tmp, NAME))
            got, log_off = calls_since(log_off)
            progs = sorted(f for f in os.listdir(cap) if f.startswith("prog-"))[-1:]
            rcs = sorted(f for f in os.listdir(cap) if f.startswith("rc-"))
            if len(os.listdir(cap)) == ncap or not progs:
                bad.append("the script never launched its python program (index %s): %s" % (i, r.stderr.decode(errors="replace")[-200:]))
                break
            src = open(os.path.join(cap, progs[-1])).read()
            try:
                compile(src, "<embedded>", "exec")
                ctx.count("programs_compiled")
            except SyntaxError as e:
                bad.append("the embedded Python program is not valid Python (index %s): %s at line %r" % (i, e.msg, (e.text or "").strip()))
                break
            rc = int(open(os.path.join(cap, rcs[-1])).read().strip() or 0) if rcs else None
            if rc != 0:
                bad.append("the embedded program failed with status %s (index %s): %s" % (rc, i, r.stderr.decode(errors="replace")[-300:]))
                break
            if case["mode"] == "array":
                want_b = [intended[(i or 1) - 1]]
            else:
                want_b = intended if ids is not None else [b for b in allb if b not in before]
            if sorted(got) != expect_calls(want_b):
                bad.append("index %s evaluated %d settings, the intended batch(es) %s hold %d" % (i, len(got), want_b, len(expect_calls(want_b))))
                break
            if not set(want_b) <= after or (after - before) - set(want_b):
                bad.append("index %s: results %s appeared, intended %s" % (i, sorted(after - before), want_b))
                break
    # ------------------------------------------------------------------ afterwards
    if not bad:
        done = set(cropkit.result_files(tmp, NAME))
        if done != set(pre) | set(intended):
            bad.append("after all tasks the finished batches are %s, expected %s" % (sorted(done), sorted(set(pre) | set(intended))))
    if not bad and set(pre) | set(intended) == set(allb):
        _final(ctx, case, crop, w, bad, sig, tmp, allb)
    for msg in bad[:2]:
        ctx.violation(dict(case, options={k: (v if isinstance(v, (int, float, str, bool, type(None))) else repr(v)) for k, v in opts.items()},
                           batch_ids=ids if not isinstance(ids, tuple) else list(ids), pre_grown=pre),
                      msg, dict(sig, oracle=" ".join(msg.split(" ")[:4])))
    ctx.rmtree(root)
    ctx.observe(case, key=(schl, case["mode"], case["state"], kind, B, sorted(opts), case["via_method"]),
                nontrivial=len(intended) >= 2,
                info={"intended": intended, "pre_grown": pre, "indices": indices, "options": sorted(opts)})


def _final(ctx, case, crop, w, bad, sig, tmp, allb):
    import xyzpy
    if bad:
        return
    try:
        with quiet():
            c3 = xyzpy.Crop(name=NAME, parent_dir=tmp)
            if not c3.is_ready_to_reap():
                bad.append("crop is not ready to reap after all intended batches were grown (missing %s)" % (c3.missing_results(),))
                return
            res = c3.reap()
        d, _ = cropkit.compare_nest(res, w, {}, "tuple:2")
        if d:
            bad.append("reap after the script-grown batches is not exact: " + d)
    except Exception as e:
        bad.append("reaping after the scripts raised %r" % (e,))
