"""C05 -- the harvested dataset is the faithful merge of everything ever harvested.

Events: every step's arguments and outcome (returned / raised), Harvester.full_ds and
load_ds(data_name) after every step, the directory listing.
Oracle: a sparse reference map coordinate -> value updated under each step's overwrite
policy; after every synced step memory == disk == model (label-wise, NaN where nothing
was ever harvested); a conflicting default-policy merge raises and changes neither.
"""
import os
import copy

import numpy as np

from .. import probe, refmodel
from ..common import quiet, exc_sig

PID = "C05"
LEVEL = "exploration"
TECHNIQUE = ("runtime monitoring of operation histories on real Harvesters (several sessions on one file), memory and "
             "disk compared after every step with a sparse reference model of the three merge policies")
RULE = ("seeded histories of 1-8 steps over harvest_combos (incl. Ellipsis), harvest_cases, add_ds, save_merge_ds, "
        "expand_dims, drop_sel on overlapping/disjoint coordinate sets of a 2-3-dimensional parameter space; per-step "
        "policy in {None, True, False}; a hidden resource 'version' makes re-harvested points conflict on purpose; engines "
        "h5netcdf/joblib; data names with and without extension; a brand-new Harvester (new session) at random steps; "
        "a third of the h5netcdf cases construct every Harvester with chunks= (dataset kept as dask arrays over the file) and save several times in a row from one session; memory-only harvesters with sync=False; runs of un-synced harvests ended by a step that saves the memory; near-equal conflicting values; results that are whole numbers at first and fractional later, labels that are whole numbers / one character at first and fractional / longer later; every post-step state is one judged observation; a quarter of the histories under xarray's announced combine defaults, a quarter with the file named by a pathlib.Path, half with every file keeping one modification time throughout; distinct by history "
        "prefix; non-trivial from the second step on")
RULE += '; after half of the add_ds steps the caller overwrites, in place, the arrays of the dataset it had handed in, and memory and disk are judged again'
ASSUMPTIONS = [
    "attributes of merged datasets are not judged (xarray's merge decides them); values, labels and variables are",
    "sync=False steps are generated for memory-only harvesters, before the file exists, and as runs of one session (possibly a brand-new one) that end in a synced harvest or in drop_sel / expand_dims / save_full_ds(); while a run is open no OTHER session acts (what is only in one session's memory cannot be on disk yet, so 'memory equals disk' is judged when the run has ended)",
    "after a bare save_merge_ds on the harvester's file the next step runs in a new session (a live Harvester caches full_ds)",
]
SHARDS = {"quick": 8, "thorough": 16}
MIN_REACH = {
    "histories_under_xarrays_new_combine_defaults": {"quick": 20, "thorough": 300},
    "histories_whose_file_is_named_by_a_path_object": {"quick": 15, "thorough": 250},
    "histories_whose_files_keep_one_time_stamp": {"quick": 20, "thorough": 350},
    "states_judged": {"quick": 500, "thorough": 9000},
    "datasets_changed_in_place_by_the_caller_after_add_ds": {"quick": 25, "thorough": 400},
    "conflicts_refused": {"quick": 25, "thorough": 500},
    "new_sessions": {"quick": 80, "thorough": 1500},
    "disk_loads_compared": {"quick": 400, "thorough": 7000},
    "overwrites_applied": {"quick": 40, "thorough": 700},
    "failed_saves": {"quick": 25, "thorough": 400},
    "older_session_reused": {"quick": 12, "thorough": 200},
    "lazily_chunked_harvesters": {"quick": 15, "thorough": 300},
    "histories_naming_the_engine_at_every_call": {"quick": 4, "thorough": 80},
    "harvests_with_chunks_named_at_the_call": {"quick": 5, "thorough": 100},
    "memory_persisted_after_unsynced_steps": {"quick": 6, "thorough": 100},
    "synced_harvests_right_after_unsynced_ones": {"quick": 6, "thorough": 100},
    "failed_saves_while_memory_held_unsynced_data": {"quick": 1, "thorough": 40},
    "unsynced_steps_before_first_save": {"quick": 25, "thorough": 400},
}
TIME_BUDGET = {"quick": 400, "thorough": 3400}

A_VALS = [1, 2, 3, 4]
B_VALS = ["u", "v", "w"]
C_VALS = [10, 20]
T_VALS = [0.1, 0.2, 0.3]


def cases(ctx):
    rng = ctx.rng("cases")
    for i in range(ctx.pick(170, 2800)):
        mem_only = rng.random() < 0.12
        engine = rng.choice(["h5netcdf", "h5netcdf", "joblib"])
        steps = []
        expanded = False
        for k in range(rng.randint(1, 8)):
            op = rng.choice(["combos", "combos", "cases", "cases", "add_ds", "save_merge", "ellipsis", "drop_sel", "expand", "save_fails"])
            if op == "expand" and (expanded or k == 0):
                op = "combos"
            if op in ("save_merge", "save_fails") and mem_only:
                op = "add_ds"
            st = {"op": op, "policy": rng.choice([None, None, True, False]), "version": rng.choice([0, 0, 0, 1, 2]),
                  "new_session": rng.random() < 0.35, "reuse_old": rng.random() < 0.3}
            na, nb = rng.randint(1, 3), rng.randint(1, 2)
            st["a"] = rng.sample(A_VALS, na)
            st["b"] = rng.sample(B_VALS, nb)
            st["c"] = [rng.choice(C_VALS)] if rng.random() < 0.8 else list(C_VALS)
            if op == "cases":
                pts = [(a, b) for a in A_VALS for b in B_VALS]
                st["pts"] = rng.sample(pts, rng.randint(1, 4))
            if op == "drop_sel":
                st["dim"] = rng.choice(["a", "b"])
                st["labels"] = [rng.choice(A_VALS if st["dim"] == "a" else B_VALS)]
            if op == "expand":
                expanded = True
                st["value"] = rng.choice(C_VALS)
            steps.append(st)
        # un-synced harvests BEFORE the data file exists are safe by the documented semantics (there is nothing on disk
        # to load over them): the first synced step must then save everything harvested so far
        prefix = rng.choice([0, 0, 0, 1, 2]) if not mem_only else 0
        for k in range(min(prefix, len(steps))):
            steps[k]["op"] = rng.choice(["combos", "cases", "add_ds"])
            steps[k]["new_session"] = False
            if steps[k]["op"] == "cases":
                pts = [(a, b) for a in A_VALS for b in B_VALS]
                steps[k]["pts"] = rng.sample(pts, rng.randint(1, 4))
        if prefix and len(steps) > prefix:
            steps[prefix]["new_session"] = False
            if steps[prefix]["op"] in ("save_merge", "drop_sel", "expand"):
                steps[prefix]["op"] = "combos"
        # a parameter first swept over whole numbers and later also at fractional values (a in 1, 2 ... then 0.5, 2.5)
        narrow = rng.random() < 0.15 and len(steps) >= 2 and not mem_only
        if narrow:
            prefix = 0
            steps[0].update(op="combos", new_session=False)
            steps[1].update(op="combos", new_session=rng.random() < 0.5, policy=None, a=[rng.choice([300, 70000])], version=steps[0]["version"])
            # the very first labels arrive as a NARROW numpy type (an int8 array), later ones only fit a wide one (300)
            for k, st in enumerate(steps):
                st["a_int8"] = (k == 0)
                if k > 0 and rng.random() < 0.6 and st["op"] in ("combos", "cases"):
                    st["a"] = rng.sample(A_VALS + [300, 70000], len(st["a"]))
                    if st["op"] == "cases":
                        st["pts"] = list(dict.fromkeys((rng.choice(A_VALS + [300, 70000]), b) for _, b in st["pts"]))
        if not narrow and rng.random() < 0.25:
            for k, st in enumerate(steps):
                if k > 0 and rng.random() < 0.6:
                    st["a"] = rng.sample(A_VALS + [0.5, 2.5], len(st["a"]))
                    if st["op"] == "cases":
                        st["pts"] = [(rng.choice(A_VALS + [0.5, 2.5]), b) for _, b in st["pts"]]
                        st["pts"] = list(dict.fromkeys(st["pts"]))
                    if st["op"] == "drop_sel" and st["dim"] == "a":
                        st["labels"] = [rng.choice(A_VALS + [0.5, 2.5])]
                # ... and a label axis whose first labels are one character long and later ones longer
                if k > 0 and rng.random() < 0.5:
                    st["b"] = rng.sample(B_VALS + ["uu", "vwx"], len(st["b"]))
                    if st["op"] == "cases":
                        st["pts"] = list(dict.fromkeys((a, rng.choice(B_VALS + ["uu", "vwx"])) for a, _ in st["pts"]))
        # a run of harvests kept in memory only (sync=False) AFTER the file exists, then a step that saves the current
        # memory (drop_sel / expand_dims / save_full_ds): everything harvested in between must reach the disk
        chunks = rng.choice([None, None, None, None, 1, 2, {"a": 1}])
        lazy = chunks is not None and engine == "h5netcdf" and not mem_only
        if engine == "h5netcdf" and not mem_only and not lazy and rng.random() < 0.3:
            for st in steps:
                if rng.random() < 0.5:
                    st["call_chunks"] = rng.choice([1, 2, {"a": 1}])
        if lazy and rng.random() < 0.7:
            # one lazily chunked session saving several times in a row without a reload in between (drop_sel and
            # expand_dims work on the dataset in memory): every save replaces the file the dask arrays read from
            tail = [{"op": "combos", "policy": True, "version": 0, "new_session": rng.random() < 0.3, "reuse_old": False,
                     "a": rng.sample(A_VALS, 4), "b": list(B_VALS), "c": [C_VALS[0]]}]
            first = rng.choice(["a", "b"])
            for k in range(rng.randint(2, 3)):
                dim = first if k == 0 else rng.choice(["a", "b"])
                # (the first drop takes the FIRST label of an axis, in a session that loaded its dataset from the file)
                lab = (A_VALS if dim == "a" else B_VALS)[0] if k == 0 else rng.choice((A_VALS if dim == "a" else B_VALS)[1:])
                tail.append({"op": "drop_sel", "policy": None, "version": 0, "new_session": k == 0 and rng.random() < 0.8,
                             "reuse_old": False, "a": [1], "b": ["u"], "c": [C_VALS[0]], "dim": dim, "labels": [lab]})
            steps.extend(tail)
        if not mem_only and len(steps) >= prefix + 1 and rng.random() < 0.25:
            at = rng.randint(prefix + 1, len(steps))        # (after the first synced step, which creates the file)
            nrun = rng.randint(1, 2)
            ins = []
            for k_ in range(nrun):
                # (the run may begin in a brand-new session: its memory then starts from what is on disk)
                st_ = {"op": rng.choice(["combos", "cases", "add_ds"]), "policy": rng.choice([None, True, False]), "version": 0,
                       "new_session": k_ == 0 and rng.random() < 0.3, "reuse_old": False, "nosync": True,
                       "a": rng.sample(A_VALS, rng.randint(1, 2)), "b": rng.sample(B_VALS, rng.randint(1, 2)), "c": [C_VALS[0]]}
                st_["pts"] = rng.sample([(a, b) for a in A_VALS for b in B_VALS], rng.randint(1, 3))
                ins.append(st_)
            if rng.random() < 0.5:
                ins.append({"op": "persist", "policy": None, "version": 0, "new_session": False, "reuse_old": False,
                            "a": [1], "b": ["u"], "c": [C_VALS[0]], "how": rng.choice(["drop_sel", "drop_sel", "expand", "save"])})
            else:
                # ... or simply by the next harvest that syncs (sync on/off mixed freely): its load-before must not discard
                # what the un-synced harvests put into memory
                # (also one whose save fails at the first attempt: the refused call must not forget what memory still holds)
                st_ = {"op": rng.choice(["combos", "cases", "add_ds", "save_fails", "save_fails"]), "policy": rng.choice([True, False]), "version": 0,
                       "new_session": False, "reuse_old": False, "after_nosync": True,
                       "a": rng.sample(A_VALS, rng.randint(1, 2)), "b": rng.sample(B_VALS, rng.randint(1, 2)), "c": [C_VALS[0]]}
                st_["pts"] = rng.sample([(a, b) for a in A_VALS for b in B_VALS], rng.randint(1, 3))
                ins.append(st_)
            steps[at:at] = ins
        kind = rng.choice(["float", "multi:s,a3", "int", "intfloat", "intfloat", "nearfloat", "nearfloat"])
        if kind == "intfloat":
            # whole numbers first, fractional ones later (and dense little grids, so that no hole keeps the dtype wide)
            for k, st in enumerate(steps):
                st["version"] = 0 if k == 0 else rng.choice([0, 1, 1, 2])
                if rng.random() < 0.5:
                    st["a"], st["b"] = st["a"][:2], st["b"][:1]
        # the engine is named at every call instead of at construction (harvest_* / add_ds take engine=): the Harvester
        # itself is built with the OTHER engine; only the operations that load with the engine of the call take part
        eac = (not mem_only and not lazy and not any(st.get("call_chunks") or st.get("nosync") or st["op"] == "persist" for st in steps)
               and prefix == 0 and rng.random() < 0.3)
        if eac:
            for st in steps:
                if st["op"] not in ("combos", "cases", "add_ds"):
                    st["op"] = "combos"
        yield {"steps": steps, "engine": engine, "mem_only": mem_only, "unsynced_prefix": prefix, "kind": kind, "engine_at_call": eac,
               "name": rng.choice(["hv", "hv_data", "full.v1"]) + (rng.choice(["", {"h5netcdf": ".h5", "joblib": ".dmp"}[engine]])),
               "extra_const": rng.random() < 0.3, "chunks": chunks}


class Conflict(Exception):
    pass


def _val_eq(x, y):
    return refmodel.deep_eq(x, y) is None


def run_case(ctx, case):
    """A quarter of the histories run in a session whose caller opted into xarray's announced new defaults for combining
    datasets (xr.set_options(use_new_combine_kwarg_defaults=True), what xarray's own FutureWarning recommends): the
    harvester's promises do not depend on that ambient setting."""
    import json
    import zlib
    import xarray as xr
    if zlib.crc32(json.dumps(case, sort_keys=True, default=str).encode()) % 4 == 0 and "use_new_combine_kwarg_defaults" in xr.core.options.OPTIONS:
        ctx.count("histories_under_xarrays_new_combine_defaults")
        with xr.set_options(use_new_combine_kwarg_defaults=True):
            return _run_case(ctx, case)
    return _run_case(ctx, case)


def _run_case(ctx, case):
    import xyzpy
    import xarray as xr
    if (len(case["steps"]) * 7 + len(case["name"])) % 2 == 1:
        ctx.count("histories_whose_files_keep_one_time_stamp")
    kind = case["kind"]
    engine = case["engine"]
    tmp = ctx.mkdtemp("hv")
    data_name = None if case["mem_only"] else os.path.join(tmp, case["name"])
    if data_name is not None and (len(case["steps"]) + len(case["name"])) % 4 == 1:
        # the harvester's file is named by a pathlib.Path (Path(project) / "hv"), in every session of the history
        import pathlib
        data_name = pathlib.Path(data_name)
        ctx.count("histories_whose_file_is_named_by_a_path_object")
    var_names = ["y", "z"] if kind.startswith("multi") else "y"
    var_dims = {"z": "t"} if kind.startswith("multi") else None
    var_coords = {"t": T_VALS} if kind.startswith("multi") else None
    constants = {"kc": 5} if case["extra_const"] else {}
    sig = {"api": "harvester", "engine": engine, "mem_only": case["mem_only"], "has_ext": "." in case["name"][-4:]}

    def new_runner(version):
        fn = probe.Probe(kind, name="hprobe")
        return xyzpy.Runner(fn, var_names, var_dims=var_dims, var_coords=var_coords, constants=constants or None,
                            resources={"version": version})

    def outputs(kw, version):
        v = probe.make(kind, {**kw, **constants, "version": version})
        if kind.startswith("multi"):
            return {"y": v[0], "z": np.asarray(v[1])}
        return {"y": float(v)}

    hkw = {}
    if case.get("chunks") and engine == "h5netcdf" and not case["mem_only"]:
        # a Harvester that keeps its dataset lazily (dask chunks over the file) - a documented configuration
        hkw["chunks"] = case["chunks"]
        ctx.count("lazily_chunked_harvesters")
    dims = ["a", "b"]
    model = {}                 # coordinate tuple (in `dims` order) -> {var: value}
    axes = {"a": set(), "b": set()}
    eac = bool(case.get("engine_at_call"))
    ctor_engine = engine if not eac else {"h5netcdf": "joblib", "joblib": "h5netcdf"}[engine]
    ek = {"engine": engine} if eac else {}
    if eac:
        ctx.count("histories_naming_the_engine_at_every_call")
    # some session of this process keeps (or will keep) the data file open for lazy reading
    lazyish = bool(hkw) or (engine == "h5netcdf" and any(st.get("call_chunks") for st in case["steps"]))
    h = xyzpy.Harvester(new_runner(0), data_name=data_name, engine=ctor_engine, **hkw)
    alive = [h]                # every session opened so far stays open (a long-lived object in another notebook)
    hist = []
    nviol = 0

    def model_ds():
        if not model and not any(axes.values()):
            return None
        co = {d: sorted(axes[d]) for d in dims}
        shape = tuple(len(co[d]) for d in dims)
        data = {"y": np.full(shape, np.nan)}
        if kind.startswith("multi"):
            data["z"] = np.full(shape + (3,), np.nan)
        for c, vals in model.items():
            idx = tuple(co[d].index(c[i]) for i, d in enumerate(dims))
            for vn, vv in vals.items():
                data[vn][idx] = vv
        dv = {"y": (tuple(dims), data["y"])}
        coords = dict(co)
        if kind.startswith("multi"):
            dv["z"] = (tuple(dims) + ("t",), data["z"])
            coords["t"] = T_VALS
        return xr.Dataset(dv, coords=coords)

    def points_ds(points, version):
        """Dataset for `points` built by the harness (for add_ds / save_merge_ds steps)."""
        saved_model, saved_axes = copy.deepcopy(model), copy.deepcopy(axes)
        try:
            model.clear()
            for d in dims:
                axes[d] = set()
            for p in points:
                c = tuple(p[d] for d in dims)
                model[c] = outputs(p, version)
                for d in dims:
                    axes[d].add(p[d])
            return model_ds()
        finally:
            model.clear()
            model.update(saved_model)
            for d in dims:
                axes[d] = saved_axes[d]

    def apply_model(points, version, policy):
        new = {tuple(p[d] for d in dims): outputs(p, version) for p in points}
        confl = [c for c in new if c in model and not all(_val_eq(model[c][vn], new[c][vn]) for vn in new[c])]
        if policy is None and confl:
            raise Conflict(confl)
        for c, v in new.items():
            if c not in model or policy is True:
                if c in model:
                    ctx.count("overwrites_applied")
                model[c] = v
        for p in points:
            for d in dims:
                axes[d].add(p[d])
                if d == "a" and isinstance(p[d], float):
                    state["a_float"] = True
        return len(confl)

    freeze_times = (len(case["steps"]) * 7 + len(case["name"])) % 2 == 1

    def judge(step_desc, synced):
        nonlocal nviol
        if freeze_times:
            # a file system whose time stamps do not advance between two writes of this history (coarse resolution, files
            # put in place with preserved times): every file of the harvester keeps ONE modification time throughout
            for f_ in os.listdir(tmp):
                p_ = os.path.join(tmp, f_)
                if os.path.isfile(p_):
                    os.utime(p_, (1.7e9, 1.7e9))
        want = model_ds()
        bad = []
        if want is None and data_name is None:
            return      # memory-only harvester before its first harvest: nothing to read, nothing promised
        try:
            with quiet():
                if eac and h._full_ds is None and data_name is not None:
                    h.load_full_ds(engine=engine)       # (the property would load with the constructor's engine)
                mem = h.full_ds if not (eac and h._full_ds is None) else h._full_ds
        except Exception as e:
            bad.append("reading full_ds raised %r" % (e,))
            mem = None
        if want is None:
            if mem is not None and len(mem.data_vars):
                bad.append("memory holds data although nothing was harvested")
        elif mem is None:
            bad.append("full_ds is None although data was harvested")
        else:
            d = refmodel.ds_equiv(want, mem, check_attrs=False)
            if d:
                bad.append("memory differs from everything harvested so far: " + d)
        if synced and data_name is not None and want is not None and state["ever_saved"]:
            try:
                with quiet():
                    disk = xyzpy.load_ds(data_name, engine=engine)
                ctx.count("disk_loads_compared")
                d = refmodel.ds_equiv(want, disk, check_attrs=False)
                if d:
                    bad.append("disk differs from everything harvested so far: " + d)
            except Exception as e:
                bad.append("loading the harvester's file raised %r" % (e,))
            ls = [f for f in os.listdir(tmp)]
            if len(ls) != 1:
                bad.append("directory holds %s" % (ls,))
        ctx.count("states_judged")
        for msg in bad[:1]:
            ctx.violation(dict(case, at=list(hist)), "after %s: %s" % (hist, msg), dict(sig, oracle=msg.split(" ")[0], op=step_desc))
            nviol += 1
        ctx.observe({"history": list(hist), "engine": engine, "name": case["name"]},
                    key=(case["kind"], engine, case["name"], case["mem_only"], tuple(map(str, hist))),
                    nontrivial=len(hist) >= 2,
                    info={"points_in_model": len(model), "axes": {d: sorted(axes[d]) for d in dims}})

    force_new = False
    state = {"ever_saved": False}
    for istep, st in enumerate(case["steps"]):
        if nviol:
            break
        op, policy, ver = st["op"], st["policy"], st["version"]
        if case.get("unsynced_prefix") and not state["ever_saved"]:
            # until the first successful save the un-synced data lives in this session's memory only:
            # opening another session (or writing the file behind its back) would discard it by design
            st = dict(st, new_session=False)
            if op == "save_merge":
                op = "add_ds"
        if lazyish and op == "save_merge":
            op = "add_ds"       # (a bare save_merge_ds rewrites the file in place: HDF5 refuses that while a lazy harvester of the same process has it open)
        sync = not case["mem_only"] and istep >= case.get("unsynced_prefix", 0) and not st.get("nosync")
        ck = {}
        if st.get("call_chunks") and engine == "h5netcdf" and not case["mem_only"] and sync and op in ("combos", "cases", "add_ds"):
            # chunks named at the call (documented on add_ds / harvest_*): this merge happens lazily over the file
            ck = {"chunks": st["call_chunks"]}
            ctx.count("harvests_with_chunks_named_at_the_call")
        if st.get("nosync"):
            ctx.count("unsynced_steps_after_the_file_exists")
        if st.get("after_nosync"):
            ctx.count("synced_harvests_right_after_unsynced_ones")
        if not sync and not case["mem_only"]:
            ctx.count("unsynced_steps_before_first_save")
        if (st["new_session"] or force_new) and not case["mem_only"]:
            h = xyzpy.Harvester(new_runner(ver), data_name=data_name, engine=ctor_engine, **hkw)
            alive.append(h)
            ctx.count("new_sessions")
            force_new = False
        elif (st.get("reuse_old") and len(alive) > 1 and not case["mem_only"] and state["ever_saved"]
              and (op in ("combos", "cases", "add_ds", "save_fails")
                   # (a drop / expansion that has nothing to act on is skipped below: an idle older session just holds an old copy)
                   or (op == "drop_sel" and model and [l for l in st["labels"] if l in axes[st["dim"]]])
                   or (op == "expand" and model and "c" not in dims))):
            # an OLDER, still open Harvester harvests again after other sessions wrote to the file: its synced add
            # re-loads the file first, so nothing the others added may be lost (its cached copy is stale by now)
            h = alive[ctx.rng("old", istep, len(alive)).randrange(len(alive) - 1)]
            alive.remove(h)
            alive.append(h)
            h.runner.resources = {"version": ver}
            ctx.count("older_session_reused")
        else:
            h.runner.resources = {"version": ver}
        expanded = "c" in dims
        expect_conflict = False
        err = None
        snapshot_model = (copy.deepcopy(model), copy.deepcopy(axes))
        try:
            with quiet():
                if op == "save_fails":
                    # the write of the merged dataset fails once (injected OSError): nothing harvested before may be lost,
                    # memory and disk stay as they were, and the same harvest succeeds afterwards
                    from .c12 import SaveFailpoint
                    combos = {"a": list(st["a"]), "b": list(st["b"])}
                    if expanded:
                        combos["c"] = list(st["c"])
                    pts = [dict(zip(combos, v)) for v in __import__("itertools").product(*combos.values())]
                    desc = "harvest_combos(%s, overwrite=True, v%d) with the save failing once" % (combos, ver)
                    fp = SaveFailpoint()
                    fp.install()
                    fp.remaining = 1
                    failed = False
                    try:
                        h.harvest_combos(combos, overwrite=True, sync=True, verbosity=0)
                    except OSError:
                        failed = True
                    finally:
                        fp.remaining = 0
                    ctx.count("failed_saves")
                    if not failed and state["ever_saved"] is not None and sync:
                        bad_msg = "an injected save error did not propagate"
                        ctx.violation(dict(case, at=list(hist)), bad_msg, dict(sig, oracle="save-error-propagates"))
                        nviol += 1
                    hist.append(desc + " [failed]")
                    if st.get("after_nosync"):
                        ctx.count("failed_saves_while_memory_held_unsynced_data")
                    # (while un-synced data is still pending the disk is legitimately behind memory)
                    judge("save_fails(before retry)", synced=sync and not st.get("after_nosync"))
                    hist.pop()
                    apply_model(pts, ver, True)
                    h.harvest_combos(combos, overwrite=True, sync=sync, verbosity=0)
                elif op in ("combos", "ellipsis"):
                    combos = {"a": list(st["a"]), "b": list(st["b"])}
                    if st.get("a_int8") and op == "combos":
                        combos["a"] = np.array(st["a"], dtype="int8")
                        ctx.count("first_labels_given_in_a_narrow_type")
                    if expanded:
                        combos["c"] = list(st["c"])
                    pts = [dict(zip(combos, v)) for v in __import__("itertools").product(*combos.values())]
                    if op == "ellipsis" and axes["a"]:
                        # Ellipsis means "every value of the coordinate as stored": once a fractional label has been
                        # harvested the coordinate is a float one, and the function is handed 4.0 where 4 was swept
                        aco = sorted(axes["a"])
                        if any(isinstance(x, float) for x in aco):
                            state["a_float"] = True
                        if state.get("a_float"):        # (dropping the fractional labels again does not make it an int axis)
                            aco = [float(x) for x in aco]
                        pts = [dict(p, a=a) for a in aco for p in
                               [dict(zip([k for k in combos if k != "a"], v)) for v in
                                __import__("itertools").product(*[combos[k] for k in combos if k != "a"])]]
                        combos["a"] = ...
                    try:
                        apply_model(pts, ver, policy)
                    except Conflict:
                        expect_conflict = True
                    h.harvest_combos(combos, overwrite=policy, sync=sync, verbosity=0, **ck, **ek)
                    desc = "harvest_combos(%s, overwrite=%s, v%d)" % ({k: ("..." if v is ... else v) for k, v in combos.items()}, policy, ver)
                elif op == "cases":
                    pts = [{"a": a, "b": b} for a, b in st["pts"]]
                    if expanded:
                        pts = [dict(p, c=st["c"][0]) for p in pts]
                    try:
                        apply_model(pts, ver, policy)
                    except Conflict:
                        expect_conflict = True
                    h.harvest_cases([dict(p) for p in pts], overwrite=policy, sync=sync, verbosity=0, **ck, **ek)
                    desc = "harvest_cases(%s, overwrite=%s, v%d)" % ([tuple(p.values()) for p in pts], policy, ver)
                elif op in ("add_ds", "save_merge"):
                    pts = [{"a": a, "b": b} for a in st["a"] for b in st["b"]]
                    if expanded:
                        pts = [dict(p, c=st["c"][0]) for p in pts]
                    new_ds = points_ds(pts, ver)
                    try:
                        apply_model(pts, ver, policy)
                    except Conflict:
                        expect_conflict = True
                    if op == "add_ds":
                        h.add_ds(new_ds, overwrite=policy, sync=sync, **ck, **ek)
                        desc = "add_ds(%d points, overwrite=%s, v%d)" % (len(pts), policy, ver)
                    else:
                        h = None
                        xyzpy.save_merge_ds(new_ds, data_name, overwrite=policy, engine=engine)
                        desc = "save_merge_ds(%d points, overwrite=%s, v%d)" % (len(pts), policy, ver)
                        h = xyzpy.Harvester(new_runner(ver), data_name=data_name, engine=ctor_engine, **hkw)
                        alive.append(h)
                        ctx.count("new_sessions")
                elif op == "persist":
                    # save what is in memory now: through drop_sel of an existing label, expand_dims, or save_full_ds
                    how = st["how"]
                    cand = [(d, sorted(axes[d], key=str)) for d in ("a", "b") if len(axes.get(d, ())) >= 2]
                    if how == "drop_sel" and cand and model:
                        dim, labs = cand[istep % len(cand)]
                        lab = labs[istep % len(labs)]
                        desc = "drop_sel(%s=[%r]) after un-synced harvests" % (dim, lab)
                        h.drop_sel({dim: [lab]})
                        i = dims.index(dim)
                        for c in [c for c in model if c[i] == lab]:
                            del model[c]
                        axes[dim] -= {lab}
                    elif how == "expand" and not expanded and model:
                        desc = "expand_dims('c', 10) after un-synced harvests"
                        h.expand_dims("c", 10)
                        dims.insert(0, "c")
                        axes["c"] = {10}
                        for c in list(model):
                            model[(10,) + c] = model.pop(c)
                    else:
                        desc = "save_full_ds() after un-synced harvests"
                        if h.full_ds is not None:
                            h.save_full_ds()
                    ctx.count("memory_persisted_after_unsynced_steps")
                elif op == "drop_sel":
                    dim, labels = st["dim"], [l for l in st["labels"] if l in axes[st["dim"]]]
                    desc = "drop_sel(%s=%s)" % (dim, labels)
                    if labels and model and h.full_ds is not None:
                        h.drop_sel({dim: labels})
                        i = dims.index(dim)
                        for c in [c for c in model if c[i] in labels]:
                            del model[c]
                        axes[dim] -= set(labels)
                elif op == "expand":
                    desc = "expand_dims('c', %r)" % (st["value"],)
                    if expanded:
                        desc += " [skipped: already expanded]"
                    elif model and h.full_ds is not None:
                        h.expand_dims("c", st["value"])
                        dims.insert(0, "c")
                        axes["c"] = {st["value"]}
                        for c in list(model):
                            model[(st["value"],) + c] = model.pop(c)
                    else:
                        desc += " [skipped: nothing harvested]"
        except Exception as e:
            err = e
        hist.append(desc if "desc" in dir() else op)
        if expect_conflict:
            model.clear()
            model.update(snapshot_model[0])
            for d in list(axes):
                axes[d] = snapshot_model[1].get(d, set())
            if err is None:
                ctx.violation(dict(case, at=list(hist)), "conflicting data was merged without an error under the default policy: %s" % hist[-1],
                              dict(sig, oracle="conflict-raises", op=op))
                nviol += 1
                break
            ctx.count("conflicts_refused")
            if h is None:
                h = xyzpy.Harvester(new_runner(ver), data_name=data_name, engine=ctor_engine, **hkw)
                alive.append(h)
            # memory and disk must be unchanged: judged below against the restored model
            h._vf_note = "after refused conflict"
            if op in ("combos", "ellipsis", "cases", "add_ds") and not case["mem_only"]:
                # the failed step's in-memory state is what a user would keep using
                pass
        elif err is not None:
            ctx.violation(dict(case, at=list(hist)), "%s raised %r" % (hist[-1], err), dict(sig, oracle="no-exception", op=op, **exc_sig(err)))
            nviol += 1
            break
        if sync and not expect_conflict and err is None and data_name is not None and os.listdir(tmp):
            state["ever_saved"] = True
        judge(op, synced=sync)
        if op == "add_ds" and err is None and not expect_conflict and nviol == 0 and (istep + case.get("hseed", 0)) % 2 == 0:
            # the caller re-uses the dataset it handed in (one pre-allocated buffer per chunk; a normalisation in place):
            # what was harvested is what was handed in THEN, in memory and on disk
            try:
                for v_ in list(new_ds.data_vars):
                    arr_ = new_ds[v_].values
                    if isinstance(arr_, np.ndarray) and arr_.dtype.kind in "fiuc" and arr_.flags.writeable:
                        arr_[...] = 98765
                ctx.count("datasets_changed_in_place_by_the_caller_after_add_ds")
                hist[-1] += " + caller overwrites its dataset in place"
                judge(op, synced=sync)
            except Exception as e:
                ctx.violation(dict(case, at=list(hist)), "judging after the caller changed its own dataset raised %r" % (e,), dict(sig, oracle="no-exception", op=op, **exc_sig(e)))
                nviol += 1
    for hh in alive + [h]:
        try:
            if hh is not None and hh._full_ds is not None:
                hh._full_ds.close()
        except Exception:
            pass
    ctx.rmtree(tmp)
