"""C15 -- sampling only ever appends correct rows.

Events: Sampler.full_df / last_df after every run, load_df(data_name), the draws made by
harness-supplied generators (they log every value they hand out), the probe call log.
Oracle: the table grows by exactly n; the earlier rows are still there unchanged; every new
row's arguments are allowed choices (and, for generators, exactly the logged draws) and its
outputs decode to exactly those arguments; disk == memory; a new Sampler continues.
"""
import os
from collections import Counter

import numpy as np

from .. import probe, refmodel
from ..common import quiet, exc_sig

PID = "C15"
LEVEL = "exploration"
TECHNIQUE = ("runtime monitoring of sampling histories on real Samplers (direct and through sow_samples/grow/reap), with "
             "logging generators, append-only table monitor and per-row decoding of the outputs")
RULE = ("seeded histories of 1-6 runs of sample_combos / sow_samples+grow+reap with n in 1..12, combos overrides (lists "
        "and logging generators), runner constants, batch sizes, shuffle, engines pickle/csv, fresh Sampler objects "
        "between runs, older still-open Samplers running again, sample crops reaped by a Crop re-created from disk, choices that are nanosecond dates, runs whose save fails once, tables under names that ask for compression; every post-run state is one judged observation; runs of 1030-1120 samples through a thread pool; samplers made by @label(sampler=...), tables named by a pathlib.Path, tables whose time stamp does not advance between runs; distinct by history prefix; non-trivial from "
        "the second run on")
RULE += '; after a third of the runs the caller edits the returned frame in place (a column overwritten, a column added) and the accumulated table is read again; the last run of one history in eight asks for n = 0 samples (known finding KF-C15-zero-samples-run-once)'
ASSUMPTIONS = [
    "'changes no earlier row' is judged as: the multiset of rows before the run is contained in the table after it, and the first rows are positionally the same",
    "csv tables are compared after pandas' own parsing (column dtypes may differ between memory and a csv reload; values are compared canonically)",
]
SHARDS = {"quick": 8, "thorough": 16}
MIN_REACH = {
    "runs_on_a_table_whose_time_stamp_did_not_advance": {"quick": 40, "thorough": 700},
    "samplers_whose_table_is_named_by_a_path_object": {"quick": 15, "thorough": 250},
    "samplers_made_by_the_label_decorator": {"quick": 20, "thorough": 300},
    "runs_of_more_than_a_thousand_samples_through_a_pool": {"quick": 2, "thorough": 30},
    "samplers_whose_choices_mix_numbers_and_text": {"quick": 2, "thorough": 80},
    "runs_whose_outputs_are_all_nan": {"quick": 8, "thorough": 150},
    "returned_frames_edited_in_place_by_the_caller": {"quick": 60, "thorough": 900},
    "tables_started_from_rows_given_at_construction": {"quick": 3, "thorough": 60},
    "runs_naming_a_constant_at_the_call": {"quick": 20, "thorough": 400},
    "runs_judged": {"quick": 250, "thorough": 4500},
    "rows_decoded": {"quick": 1200, "thorough": 20000},
    "crop_runs": {"quick": 60, "thorough": 1000},
    "new_samplers": {"quick": 60, "thorough": 1000},
    "crops_reaped_by_a_reloaded_crop": {"quick": 20, "thorough": 350},
    "runs_whose_save_failed": {"quick": 10, "thorough": 200},
    "samplers_with_a_compressed_table": {"quick": 15, "thorough": 300},
    "older_sampler_reused": {"quick": 8, "thorough": 150},
    "generator_draws_matched": {"quick": 300, "thorough": 5000},
}
TIME_BUDGET = {"quick": 400, "thorough": 3400}


def cases(ctx):
    rng = ctx.rng("cases")
    for i in range(ctx.pick(110, 1900)):
        runs = []
        for k in range(rng.randint(1, 6)):
            r = {"how": rng.choice(["sample", "sample", "crop"]), "n": rng.randint(1, 12), "new_sampler": rng.random() < 0.4,
                 "reuse_old": rng.random() < 0.35,
                 "override": rng.choice([None, None, "lists", "gens", "mixed"]), "shuffle": rng.choice([False, False, True, 5]),
                 "batchsize": rng.choice([None, 1, 2, 3, 5]), "reload_crop": rng.random() < 0.5, "reap_reloaded": rng.random() < 0.5, "save_fails_first": rng.random() < 0.12, "rseed": rng.randint(0, 10 ** 9)}
            runs.append(r)
        if i % 8 == 3:
            # DEGENERATE: the last run of the history asks for NO samples (n = 0): it appends no row and evaluates nothing
            runs[-1]["n"] = 0
            runs[-1]["save_fails_first"] = False
        no_args = rng.random() < 0.08
        if no_args:
            for r in runs:
                r["override"] = None
        consts = rng.choice([{}, {"kc": 3}, {"kc": "zz", "k2": 1.5}])
        if consts:
            # some runs name another value for a constant at the call (sample_combos / sow_samples constants=)
            for k, r in enumerate(runs):
                if rng.random() < 0.35:
                    r["run_constants"] = {"kc": rng.choice([5, 7]) if consts["kc"] == 3 else rng.choice(["yy", "xx"])}
        for r in runs:
            # a run over a region where the function has no answer: every output of its rows is NaN (an empty cell in a csv table)
            r["nan_run"] = rng.random() < 0.15
        if i % 20 == 5:
            # one LONG run (more than a thousand samples) through a pool of threads
            k_ = [k for k, r in enumerate(runs) if r["how"] == "sample"]
            if k_:
                runs[k_[0]]["n"] = 1030 + i % 90
                runs[k_[0]]["pool"] = True
                runs[k_[0]]["save_fails_first"] = False
        yield {"runs": runs, "no_args": no_args, "engine": rng.choice(["pickle", "pickle", "csv"]), "kind": rng.choice(["float", "multi:s,s", "int", "str", "frac", "frac"]),
               "constants": consts, "mem_only": rng.random() < 0.1, "seeded_table": rng.random() < 0.15, "mixed_choices": rng.random() < 0.2,
               "default_kind": rng.choice(["lists", "mixed"]), "x_dates": rng.random() < 0.3,
               # table names whose extension asks pandas for compression
               "compress": rng.choice(["", "", "", ".gz", ".xz", ".bz2"])}


class LoggingGen(object):
    """A callable 'distribution' that records every value it hands out."""

    def __init__(self, rng, pool, log):
        self.rng, self.pool, self.log = rng, pool, log

    def __call__(self):
        v = self.pool[self.rng.randrange(len(self.pool))]
        self.log.append(v)
        return v


def _cv_row(row, cols):
    return tuple((c, "null" if refmodel.is_null_leaf(row.get(c)) else probe._cv(row[c])) for c in cols)


def run_case(ctx, case):
    import xyzpy
    kind = case["kind"]
    engine = case["engine"]
    tmp = ctx.mkdtemp("smp")
    data_name = None if case["mem_only"] else os.path.join(tmp, "samples." + ("pkl" if engine == "pickle" else "csv") + case.get("compress", ""))
    if data_name is not None and case.get("compress"):
        ctx.count("samplers_with_a_compressed_table")
    constants = dict(case["constants"])
    var_names = ["y", "z"] if kind.startswith("multi") else "y"
    outs = ["y", "z"] if kind.startswith("multi") else ["y"]
    args = ["a", "b", "x"] if not case.get("no_args") else []      # no_args: every argument of the function is a constant
    if case.get("no_args"):
        constants = dict(constants, kfix=2)
        ctx.count("samplers_without_sampled_arguments")
    base_constants = dict(constants)        # what the Sampler's runner holds; a run may name other values at the call
    POOLS = {"a": [1, 2, 3, 5, 8], "b": ["u", "v", "w"], "x": [0.25, 1.5, -2.75, 10.125]}
    if case.get("mixed_choices") and engine == "pickle" and not case.get("x_dates"):
        # choices mixing numbers and a keyword ('auto'): each is handed to the function, and recorded, as it was given
        POOLS["x"] = [0.25, "auto", 1.5, "exact", -2.75]
        ctx.count("samplers_whose_choices_mix_numbers_and_text")
    if case.get("x_dates") and engine == "pickle":
        # choices that are nanosecond-resolution dates (a time axis taken from a dataset): rows must hold those dates
        POOLS["x"] = list(np.array(["2021-03-05", "2021-03-06T12:00:00.000000001", "1999-12-31T23:59:59", "2030-01-01"],
                                   dtype="datetime64[ns]"))
        ctx.count("samplers_with_date_choices")
    logfile = os.path.join(tmp, "calls.log")
    ctl = os.path.join(tmp, "ctl.json")
    probe.write_ctl(ctl)
    fn = probe.Probe(kind, logfile=logfile, ctl=ctl, name="sprobe")
    sig = {"api": "sampler", "engine": engine, "kind": kind.split(":")[0]}

    def new_sampler(rng, **skw):
        runner = xyzpy.Runner(fn, var_names, constants=dict(base_constants) or None)
        dc = {}
        for a in args:
            dc[a] = list(POOLS[a]) if case["default_kind"] == "lists" or a != "x" else LoggingGen(rng, POOLS[a], draws.setdefault(a, []))
        dn = data_name
        if dn is not None and len(case["runs"]) % 3 == 1:
            # the table is named by a pathlib.Path, in every session of the history
            import pathlib
            dn = pathlib.Path(dn)
            ctx.count("samplers_whose_table_is_named_by_a_path_object")
        if not skw and dn is not None and len(case["runs"]) % 2 == 1:
            # the Sampler is made by the decorator spelling: @label(var_names, sampler=<name>)
            smp = xyzpy.label(var_names, constants=dict(base_constants) or None, sampler=dn, engine=engine)(fn)
            smp.default_combos = dict(dc)
            ctx.count("samplers_made_by_the_label_decorator")
            return smp
        return xyzpy.Sampler(runner, data_name=dn, default_combos=dc or None, engine=engine, **skw)

    draws = {}
    s = None
    alive = []
    prev_rows = []
    hist = []
    cols = args + sorted(constants) + outs
    log_off = 0
    nviol = 0
    if case.get("seeded_table") and not case["mem_only"] and args:
        # the table starts from rows carried over from a Sampler that lived in memory only: the first Sampler on the
        # (not yet existing) file is constructed with them (full_df=), and every later run appends to them
        try:
            with quiet():
                np.random.seed(case["runs"][0]["rseed"] % 1000)
                s0 = xyzpy.Sampler(xyzpy.Runner(fn, var_names, constants=dict(base_constants) or None), data_name=None,
                                   default_combos={a: list(POOLS[a]) for a in args})
                s0.sample_combos(3, verbosity=0)
                init_df = s0.full_df.copy()
                s = new_sampler(ctx.rng("run", case["runs"][0]["rseed"]), full_df=init_df)
            alive.append(s)
            prev_rows = [_cv_row(r, cols) for r in init_df.to_dict("records")]
            log_off = probe.read_log(logfile, log_off)[1]
            ctx.count("tables_started_from_rows_given_at_construction")
        except Exception as e:
            ctx.violation(dict(case, at=["Sampler(full_df=<3 rows>)"]), "constructing a Sampler with initial rows raised %r" % (e,),
                          dict(sig, oracle="no-exception", **exc_sig(e)))
            nviol += 1
    first = True
    for run in case["runs"]:
        if nviol:
            break
        rng = ctx.rng("run", run["rseed"])
        for v in draws.values():
            del v[:]
        if s is None or (run["new_sampler"] and not case["mem_only"] and not (first and case.get("seeded_table"))):
            if s is not None:
                ctx.count("new_samplers")
            try:
                s = new_sampler(rng)
            except Exception as e:
                ctx.violation(dict(case, at=list(hist)), "after %s a new Sampler on the same table could not be created: %r" % (hist, e),
                              dict(sig, oracle="new-sampler-continues", **exc_sig(e)))
                nviol += 1
                break
            alive.append(s)
        elif run.get("reuse_old") and len(alive) > 1 and not case["mem_only"]:
            # an OLDER sampler object (another session that is still open) runs again after newer ones appended
            s = alive[rng.randrange(len(alive) - 1)]
            ctx.count("older_sampler_reused")
            for a, v in s.default_combos.items():
                if isinstance(v, LoggingGen):
                    v.rng = rng
                    v.log = draws.setdefault(a, [])
        else:
            # re-point logging generators of the live sampler at this run's rng
            for a, v in s.default_combos.items():
                if isinstance(v, LoggingGen):
                    v.rng = rng
        first = False
        if data_name is not None and len(case["runs"]) % 2 == 0 and os.path.exists(data_name):
            # the table's time stamp does not advance between the runs of this history (coarse resolution, a table put
            # back with preserved times): what is on disk is what counts, whatever its time stamp says
            os.utime(data_name, (1.7e9, 1.7e9))
            ctx.count("runs_on_a_table_whose_time_stamp_did_not_advance")
        n = run["n"]
        sig = dict(sig, n_is_zero=str(n == 0))
        if n == 0:
            ctx.count("runs_asking_for_no_samples")
        override = None
        allowed = {a: list(POOLS[a]) for a in args}
        gens_used = {a: isinstance(s.default_combos[a], LoggingGen) for a in args}
        if run["override"]:
            override = {}
            for a in args:
                if run["override"] == "lists" or (run["override"] == "mixed" and a == "a"):
                    sub = rng.sample(POOLS[a], rng.randint(1, len(POOLS[a])))
                    override[a] = sub
                    allowed[a] = sub
                    gens_used[a] = False
                elif run["override"] in ("gens", "mixed"):
                    sub = rng.sample(POOLS[a], rng.randint(1, len(POOLS[a])))
                    override[a] = LoggingGen(rng, sub, draws.setdefault(a, []))
                    allowed[a] = sub
                    gens_used[a] = True
        err = None
        desc = "%s(n=%d%s)" % (run["how"], n, ", override=%s" % run["override"] if run["override"] else "")
        if run.get("save_fails_first") and run["how"] == "sample" and data_name is not None and not nviol and \
                not (case.get("seeded_table") and not os.path.exists(data_name)):     # (rows given at construction are in memory only until the first save)
            # the write of the table fails once (disk full): the run raises, memory and disk stay as they were (in step
            # with each other), and the run that follows appends exactly its own n rows
            from .c12 import SaveFailpoint
            fp = SaveFailpoint()
            fp.install()
            fp.remaining = 1
            failed = None
            try:
                with quiet():
                    np.random.seed((run["rseed"] + 1) % (2 ** 32))
                    s.sample_combos(n, override, verbosity=0)
            except OSError as e:
                failed = e
            except Exception as e:
                failed = e
            finally:
                fp.remaining = 0
            ctx.count("runs_whose_save_failed")
            recs, log_off = probe.read_log(logfile, log_off)
            for v in draws.values():
                del v[:]
            msgs = []
            if failed is None and fp.fired:
                msgs.append("an injected save error did not propagate")
            try:
                with quiet():
                    mem_rows = [_cv_row(r, cols) for r in s.full_df.to_dict("records")] if (prev_rows or os.path.exists(data_name)) else []
                    disk_rows = [_cv_row(r, cols) for r in xyzpy.load_df(data_name, engine=engine).to_dict("records")] \
                        if os.path.exists(data_name) else []
            except Exception as e:
                msgs.append("reading the table after a failed save raised %r" % (e,))
                mem_rows = disk_rows = prev_rows
            if fp.fired and mem_rows != disk_rows:
                msgs.append("after a run whose save failed the Sampler's table has %d rows in memory and %d on disk" % (len(mem_rows), len(disk_rows)))
            elif fp.fired and disk_rows != prev_rows:
                msgs.append("after a run whose save failed the table on disk changed (%d rows, %d before)" % (len(disk_rows), len(prev_rows)))
            for msg in msgs[:1]:
                ctx.violation(dict(case, at=list(hist) + [desc + " [save failed]"]), msg, dict(sig, oracle="failed-save", how=run["how"]))
                nviol += 1
            if nviol:
                break
        rck = {}
        constants = dict(base_constants)
        if run.get("run_constants"):
            rck = {"constants": dict(run["run_constants"])}
            constants.update(run["run_constants"])          # what this run's rows were computed with, and must record
            ctx.count("runs_naming_a_constant_at_the_call")
        nan_run = bool(run.get("nan_run")) and kind in ("float", "multi:s,s", "frac")
        probe.write_ctl(ctl, **({"nan_results": True} if nan_run else {}))
        if nan_run:
            ctx.count("runs_whose_outputs_are_all_nan")
        try:
            with quiet():
                np.random.seed(run["rseed"] % (2 ** 32))
                if run["how"] == "sample":
                    kw = {}
                    if run["shuffle"]:
                        kw["shuffle"] = run["shuffle"]
                    if run.get("pool"):
                        from concurrent.futures import ThreadPoolExecutor
                        with ThreadPoolExecutor(3) as pool_:
                            last = s.sample_combos(n, override, verbosity=0, executor=pool_, **kw, **rck)
                        ctx.count("runs_of_more_than_a_thousand_samples_through_a_pool")
                    else:
                        last = s.sample_combos(n, override, verbosity=0, **kw, **rck)
                else:
                    ckw = {}
                    if run["batchsize"]:
                        ckw["batchsize"] = run["batchsize"]
                    crop = s.Crop(name="smp", parent_dir=tmp, **ckw)
                    if run["shuffle"]:
                        crop.shuffle = run["shuffle"]
                    crop.sow_samples(n, override, verbosity=0, **rck)
                    if run["reload_crop"]:
                        xyzpy.Crop(name="smp", parent_dir=tmp).grow_missing()
                    else:
                        crop.grow_missing()
                    if run.get("reap_reloaded") and not case["mem_only"]:
                        # the crop is reaped by a Crop re-created from disk (a cluster job / fresh session): its farmer is
                        # the Sampler as stored with the crop; the table on disk must continue exactly as configured
                        last = xyzpy.Crop(name="smp", parent_dir=tmp).reap()
                        ctx.count("crops_reaped_by_a_reloaded_crop")
                        s = new_sampler(rng)
                        alive.append(s)
                    else:
                        last = crop.reap()
                    ctx.count("crop_runs")
        except Exception as e:
            err = e
        hist.append(desc)
        if err is not None:
            ctx.violation(dict(case, at=list(hist)), "%s raised %r" % (desc, err), dict(sig, oracle="no-exception", how=run["how"], **exc_sig(err)))
            nviol += 1
            break
        bad = []
        try:
            with quiet():
                full = s.full_df
        except Exception as e:
            ctx.violation(dict(case, at=list(hist)), "after %s reading the Sampler's table raised %r" % (hist, e),
                          dict(sig, oracle="table-readable", how=run["how"], **exc_sig(e)))
            nviol += 1
            break
        rows = full.to_dict("records")
        lrows = last.to_dict("records")
        missing_cols = [c for c in cols if c not in full.columns]
        if missing_cols:
            bad.append("columns %s missing from the table (has %s)" % (missing_cols, list(full.columns)))
        else:
            now = [_cv_row(r, cols) for r in rows]
            if len(rows) != len(prev_rows) + n:
                bad.append("table has %d rows after a run of n=%d on %d rows" % (len(rows), n, len(prev_rows)))
            elif now[:len(prev_rows)] != prev_rows:
                if Counter(now) - Counter(prev_rows) and not (Counter(prev_rows) - Counter(now)):
                    bad.append("earlier rows were reordered")
                else:
                    bad.append("earlier rows changed or were dropped: %s" % (list((Counter(prev_rows) - Counter(now)).keys())[:2],))
            new = rows[len(prev_rows):]
            if len(lrows) != n:
                bad.append("last_df has %d rows for n=%d" % (len(lrows), n))
            if s.last_df is not last and run["how"] == "sample":
                bad.append("last_df is not the returned frame")
            for r in new:
                for a in args:
                    if probe._cv(r[a]) not in {probe._cv(v) for v in allowed[a]}:
                        bad.append("row argument %s=%r is not among the allowed choices %s" % (a, r[a], allowed[a]))
                kw = {a: r[a] for a in args}
                v = probe.make(kind, {**kw, **constants})
                if nan_run:
                    v = tuple(float("nan") for _ in v) if isinstance(v, tuple) else float("nan")
                exp = {"y": v[0], "z": v[1]} if kind.startswith("multi") else {"y": v}
                for o in outs:
                    d = refmodel.deep_eq(r[o], exp[o])
                    if d:
                        bad.append("row %s carries %s=%r, the function's value there is %r" % (kw, o, r[o], exp[o]))
                        break
                for k, cv in constants.items():
                    if refmodel.deep_eq(r[k], cv):
                        bad.append("constant column %s=%r != %r" % (k, r[k], cv))
                ctx.count("rows_decoded")
                if bad:
                    break
            # generator draws: exactly the logged values, as a multiset
            for a in args:
                if gens_used[a] and not bad:
                    want = Counter(probe._cv(v) for v in draws.get(a, []))
                    got = Counter(probe._cv(r[a]) for r in new)
                    ctx.count("generator_draws_matched", len(new))
                    if want != got:
                        bad.append("argument %s of the new rows %s is not the multiset of values the generator handed out %s" % (
                            a, sorted(got.elements()), sorted(want.elements())))
            # the function was called exactly for the new rows
            recs, log_off = probe.read_log(logfile, log_off)
            want_calls = Counter(probe.canon({**{a: r[a] for a in args}, **constants}) for r in new)
            if Counter(r["k"] for r in recs) != want_calls and not bad:
                bad.append("function evaluated %d times for %d new rows (or on other arguments)" % (len(recs), len(new)))
            prev_rows = now
        # disk == memory, and a brand-new sampler continues from it
        if data_name is not None and not bad:
            try:
                with quiet():
                    disk = xyzpy.load_df(data_name, engine=engine)
                dk = [_cv_row(r, cols) for r in disk.to_dict("records")]
                if dk != prev_rows:
                    bad.append("table on disk (%d rows) differs from the one in memory (%d rows)" % (len(dk), len(prev_rows)))
            except Exception as e:
                bad.append("loading the table from disk raised %r" % (e,))
        if not bad and run["rseed"] % 3 == 0 and len(last):
            # the frame a run hands back is the caller's: they rescale a column and add one IN PLACE (notes, unit changes).
            # The accumulated table is not theirs to change that way: it still holds the rows as they were sampled
            try:
                last[outs[0]] = [("edited", i) for i in range(len(last))]
                last["caller_note"] = "mine"
                with quiet():
                    full2 = s.full_df
                ctx.count("returned_frames_edited_in_place_by_the_caller")
                if "caller_note" in full2.columns:
                    bad.append("the caller's new column on the returned frame appeared in the accumulated table (columns %s)" % (list(full2.columns),))
                elif [_cv_row(r, cols) for r in full2.to_dict("records")] != prev_rows:
                    bad.append("earlier rows changed in the accumulated table when the caller edited the returned frame in place")
            except Exception as e:
                bad.append("reading the table after the caller edited the returned frame raised %r" % (e,))
        ctx.count("runs_judged")
        for msg in bad[:1]:
            ctx.violation(dict(case, at=list(hist)), "after %s: %s" % (hist, msg), dict(sig, oracle=msg.split(" ")[0], how=run["how"],
                                                                                        shuffle=bool(run["shuffle"])))
            nviol += 1
        ctx.observe({"history": list(hist), "engine": engine}, key=(engine, kind, case["mem_only"], tuple(hist), case["runs"][0]["rseed"]),
                    nontrivial=len(hist) >= 2, info={"rows": len(prev_rows), "last_n": n})
    ctx.rmtree(tmp)
