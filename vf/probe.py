"""Importable flavour of the probe + helpers to read call logs and build the by-value flavour."""
import os
import json

from .probe_core import (  # noqa: F401
    canon, enc, make, probe_call, Probe, make_fn, ProbeFailure, FAIL_EXCS, _cv,
)
from . import probe_core


def read_log(logfile, offset=0):
    """Read complete lines appended to a probe log since `offset`; returns (records, new_offset)."""
    if not os.path.exists(logfile):
        return [], offset
    with open(logfile, "rb") as f:
        f.seek(offset)
        data = f.read()
    end = data.rfind(b"\n") + 1
    recs = [json.loads(line) for line in data[:end].splitlines() if line.strip()]
    return recs, offset + end


def byvalue_namespace(modname="__vf_probe_dyn__"):
    """Exec probe_core into a namespace whose module is not importable, so cloudpickle
    pickles the functions/classes defined there *by value* (self-contained crops)."""
    with open(probe_core.__file__) as f:
        src = f.read()
    ns = {"__name__": modname}
    exec(compile(src, "<vf-probe-by-value>", "exec"), ns)
    return ns


def write_ctl(path, **kw):
    tmp = path + ".tmp"
    with open(tmp, "w") as f:
        json.dump(kw, f)
    os.replace(tmp, path)
