"""Cooperative scheduler for file-level interleavings.

Actors (growers, a waiting reaper, a progress poller) are threads of one process running
the REAL code; the fs shim parks an actor before every operation on a contended path, so
exactly one actor runs at a time and the interleaving is chosen here, not by the OS.
time.sleep inside an actor is a virtual yield: the sleeper becomes schedulable again only
after another actor performed a mutating operation (no verdict depends on wall-clock time).

Exploration is stateless (every schedule re-runs the real code from a fresh copy of the
crop): seeded random walks, and depth-first search with SLEEP SETS over the dependence
relation of file operations, which visits every Mazurkiewicz trace of a small configuration.
"""
import os
import time
import threading

from . import fsshim

_real_sleep = time.sleep
_current = {"sched": None}


def _patched_sleep(secs):
    s = _current["sched"]
    if s is not None:
        a = s.actor_of_thread()
        if a is not None:
            # two scheduling points: going to sleep (reads the global mutation count - an event
            # that depends on every mutation) and waking up (enabled only after a later mutation)
            s.park(a, SLEEP_BEGIN)
            s.park(a, SLEEP)
            return
    _real_sleep(secs)


def install_sleep_patch():
    if time.sleep is not _patched_sleep:
        time.sleep = _patched_sleep


class _Sleep(object):
    op = "sleep"
    path = None
    path2 = None
    detail = None
    mutating = False

    def key(self):
        return ("sleep", None, None, None)

    def __repr__(self):
        return "sleep"


SLEEP = _Sleep()


class _SleepBegin(_Sleep):
    op = "sleep-begin"

    def key(self):
        return ("sleep-begin", None, None, None)

    def __repr__(self):
        return "sleep-begin"


SLEEP_BEGIN = _SleepBegin()


# --------------------------------------------------------------------------- #
# dependence relation
# --------------------------------------------------------------------------- #

def _rw(key):
    """(reads, writes) resource sets of an event key (op, path, path2, detail)."""
    op, p, p2, _ = key
    d = os.path.dirname(p) if p else None
    if op == "stat":
        return {("entry", p)}, set()
    if op == "open-r":
        return {("entry", p), ("data", p)}, set()
    if op == "read":
        return {("data", p)}, set()
    if op == "list":
        return {("dir", p)}, set()
    if op in ("create", "h5-open-w"):
        return set(), {("entry", p), ("dir", d), ("data", p)}
    if op in ("write", "close-w", "h5-close-w", "truncate", "open-a"):
        return set(), {("data", p)}
    if op in ("remove", "rmdir"):
        return set(), {("entry", p), ("dir", d), ("data", p), ("dir", p)}
    if op == "mkdir":
        return set(), {("entry", p), ("dir", d)}
    if op == "rename":
        d2 = os.path.dirname(p2) if p2 else None
        return set(), {("entry", p), ("entry", p2), ("dir", d), ("dir", d2), ("data", p), ("data", p2)}
    return set(), set()


def dependent(k1, k2):
    sl = ("sleep", "sleep-begin")
    if k1[0] in sl or k2[0] in sl:
        other = k2 if k1[0] in sl else k1
        if other[0] in sl:
            return False
        return bool(_rw(other)[1])          # falling asleep / waking up depends on every mutation
    r1, w1 = _rw(k1)
    r2, w2 = _rw(k2)
    return bool(w1 & (r2 | w2)) or bool(w2 & r1)


# --------------------------------------------------------------------------- #
# one execution
# --------------------------------------------------------------------------- #

class Actor(object):
    def __init__(self, name, fn):
        self.name = name
        self.fn = fn
        self.thread = None
        self.pending = None        # Event the actor is parked at
        self.granted = False
        self.finished = False
        self.outcome = None
        self.sleep_mark = -1
        self.idle_mark = -1
        self.nevents = 0


class Blocked(BaseException):
    """Raised inside actors to unwind them when a run is abandoned."""


class Scheduler(object):
    def __init__(self, root, contended, chooser, monitor=None, max_steps=4000):
        self.root = root
        self.contended = contended
        self.chooser = chooser
        self.monitor = monitor
        self.max_steps = max_steps
        self.cv = threading.Condition()
        self.actors = {}
        self.by_thread = {}
        self.trace = []            # (actor, event key, repr)
        self.mutations = 0
        self.step = 0
        self.abandon = False
        self.status = None

    def add(self, name, fn):
        self.actors[name] = Actor(name, fn)

    def actor_of_thread(self):
        return self.by_thread.get(threading.get_ident())

    # ---- called from actor threads ----
    def park(self, actor, ev):
        with self.cv:
            if self.abandon:
                raise Blocked()
            actor.pending = ev
            actor.granted = False
            self.cv.notify_all()
            while not actor.granted:
                self.cv.wait()
                if self.abandon:
                    raise Blocked()
            actor.pending = None
            actor.nevents += 1

    def handler(self, ev):
        a = self.by_thread.get(threading.get_ident())
        if a is None:
            return
        if ev.path is None or not self.contended(ev):
            return
        ev.actor = a.name
        self.park(a, ev)

    def _body(self, actor):
        self.by_thread[threading.get_ident()] = actor
        fsshim.set_actor(actor.name)
        try:
            self.park(actor, _Start())
            actor.outcome = ("ok", actor.fn())
        except Blocked:
            actor.outcome = ("blocked", None)
        except BaseException as e:   # noqa
            actor.outcome = ("exc", e)
        finally:
            with self.cv:
                actor.finished = True
                actor.pending = None
                self.cv.notify_all()

    # ---- main thread ----
    def run(self):
        _current["sched"] = self
        fsshim.set_handler(self.handler)
        for a in self.actors.values():
            a.thread = threading.Thread(target=self._body, args=(a,), daemon=True)
            a.thread.start()
        try:
            while True:
                with self.cv:
                    deadline = time.time() + 60
                    while not all(a.finished or a.pending is not None for a in self.actors.values()):
                        if not self.cv.wait(timeout=5) and time.time() > deadline:
                            self.status = "watchdog"
                            self.abandon = True
                            self.cv.notify_all()
                            return self
                    live = [a for a in self.actors.values() if not a.finished]
                    if not live:
                        self.status = "done"
                        return self
                    enabled = [a for a in live if a.pending is not SLEEP or self.mutations > a.sleep_mark]
                    idle_wake = False
                    if not enabled:
                        # every live actor sleeps: time passes and sleepers wake up although nothing
                        # changed; one that already did so at this mutation count can never progress
                        enabled = [a for a in live if a.idle_mark != self.mutations]
                        idle_wake = True
                        if not enabled:
                            self.status = "stuck-waiting"
                            self.abandon = True
                            self.cv.notify_all()
                            return self
                    if self.step >= self.max_steps:
                        self.status = "steplimit"
                        self.abandon = True
                        self.cv.notify_all()
                        return self
                    cand = sorted(((a.name, a.pending.key(), a.pending) for a in enabled), key=lambda x: x[0])
                    choice = self.chooser(cand, self.step)
                    if choice is None:
                        self.status = "sleep-blocked"
                        self.abandon = True
                        self.cv.notify_all()
                        return self
                    a = self.actors[choice]
                    ev = a.pending
                    self.trace.append((a.name, ev.key(), repr(ev)))
                    if getattr(ev, "mutating", False):
                        self.mutations += 1
                    if ev is SLEEP_BEGIN:
                        a.sleep_mark = self.mutations
                    if idle_wake:
                        a.idle_mark = self.mutations
                    self.step += 1
                    a.granted = True
                    self.cv.notify_all()
                    # wait until that actor parks again or finishes
                    while a.granted and not a.finished:
                        self.cv.wait(timeout=5)
                if self.monitor is not None:
                    self.monitor(self)
        finally:
            with self.cv:
                self.abandon = self.abandon or self.status != "done"
                self.cv.notify_all()
            for a in self.actors.values():
                if a.thread is not None:
                    a.thread.join(timeout=10)
            _current["sched"] = None
            fsshim.set_handler(None)


class _Start(object):
    op = "start"
    path = None
    path2 = None
    detail = None
    mutating = False

    def key(self):
        return ("start", None, None, None)

    def __repr__(self):
        return "start"


# --------------------------------------------------------------------------- #
# exploration strategies
# --------------------------------------------------------------------------- #

class RandomChooser(object):
    def __init__(self, rng, stickiness=0.0):
        self.rng = rng
        self.stick = stickiness
        self.last = None

    def __call__(self, cand, step):
        names = [c[0] for c in cand]
        if self.last in names and self.rng.random() < self.stick:
            return self.last
        self.last = self.rng.choice(names)
        return self.last


class GuidedChooser(object):
    """Follow `prefix`; afterwards pick the first enabled actor not in the sleep set.
    Records, per depth, the enabled set, the sleep set and the choice (for backtracking)."""

    def __init__(self, prefix, sleep):
        self.prefix = list(prefix)
        self.node_sleep = dict(sleep)     # sleep set of the state reached after `prefix`
        self.sleep = {}                   # actor -> event key (current)
        self.record = []                  # (cand [(name,key)], sleep dict, chosen)
        self.diverged = False

    def __call__(self, cand, step):
        keys = {n: k for n, k, _ in cand}
        if step == len(self.prefix):
            self.sleep = dict(self.node_sleep)
        elif step < len(self.prefix):
            self.sleep = {}
        # an actor whose pending event changed is no longer the same transition
        cur_sleep = {a: k for a, k in self.sleep.items() if keys.get(a) == k}
        if step < len(self.prefix):
            ch = self.prefix[step]
            if ch not in keys:
                self.diverged = True
                return None
        else:
            ch = next((n for n, _, _ in cand if n not in cur_sleep), None)
        self.record.append(([(n, k) for n, k, _ in cand], dict(cur_sleep), ch))
        if ch is None:
            return None
        ck = keys[ch]
        self.sleep = {a: k for a, k in cur_sleep.items() if a != ch and not dependent(k, ck)}
        return ch


def dfs_sleepsets(run_one, max_runs=100000, use_sleep_sets=True, part=(0, 1), split_depth=4):
    """Stateless DFS. run_one(chooser) executes one schedule and returns an object the caller
    judges; yields (result, chooser) per execution.  With use_sleep_sets=False this is the
    brute-force enumeration of all interleavings (used to validate the reduction).

    part=(j, J) splits the search over J independent explorers: nodes whose prefix is shorter
    than split_depth are executed by every explorer (cheap, needed to discover their children)
    but reported by explorer 0 only; the deeper nodes they generate are dealt out round-robin.
    Sleep sets are fixed per node when it is created, so the sub-searches are independent."""
    j, J = part
    stack = [([], {})]
    runs = 0
    dealt = 0
    while stack and runs < max_runs:
        prefix, sleep = stack.pop()
        ch = GuidedChooser(prefix, sleep if use_sleep_sets else {})
        res = run_one(ch)
        runs += 1
        shallow = J > 1 and len(prefix) < split_depth
        if not shallow or j == 0:
            yield res, ch
        new = []
        for d in range(len(prefix), len(ch.record)):
            cand, sl, chosen = ch.record[d]
            if chosen is None:
                continue
            explored = {chosen: dict(cand)[chosen]}
            base = [c[2] for c in ch.record[:d]]
            for n, k in cand:
                if n == chosen or (use_sleep_sets and n in sl):
                    continue
                if use_sleep_sets:
                    child_sleep = {a: ak for a, ak in list(sl.items()) + list(explored.items())
                                   if a != n and not dependent(ak, k)}
                else:
                    child_sleep = {}
                new.append((base + [n], child_sleep))
                explored[n] = k
        for node in new:
            if shallow and len(node[0]) >= split_depth:
                dealt += 1
                if dealt % J != j:
                    continue
            stack.append(node)


def trace_signature(trace):
    """Mazurkiewicz class of a complete trace: the order of every dependent pair of events,
    events named by (actor, index within that actor)."""
    idx = {}
    named = []
    for actor, key, _ in trace:
        i = idx.get(actor, 0)
        idx[actor] = i + 1
        named.append(((actor, i), key))
    sig = set()
    for i in range(len(named)):
        for j in range(i + 1, len(named)):
            (n1, k1), (n2, k2) = named[i], named[j]
            if n1[0] != n2[0] and dependent(k1, k2):
                sig.add((n1, n2))
    return frozenset(sig), tuple(sorted(idx.items()))
