"""Helpers shared by the crop properties (C04, C06-C12, C15, C16): building crops from a
JSON case description, reference settings, label-wise comparison of reaped nests."""
import os
import glob
import pickle

from . import probe, refmodel, gens


def read_pickle(path):
    with open(path, "rb") as f:
        return pickle.load(f)


def crop_dir(parent, name):
    return os.path.join(parent, ".xyz-" + name)


def batch_files(parent, name):
    out = {}
    for p in glob.glob(os.path.join(glob.escape(crop_dir(parent, name)), "batches", "xyz-batch-*.jbdmp")):
        i = os.path.basename(p)[len("xyz-batch-"):-len(".jbdmp")]
        out[int(i)] = p
    return out


def result_files(parent, name):
    out = {}
    for p in glob.glob(os.path.join(glob.escape(crop_dir(parent, name)), "results", "xyz-result-*.jbdmp")):
        i = os.path.basename(p)[len("xyz-result-"):-len(".jbdmp")]
        try:
            out[int(i)] = p
        except ValueError:
            out[i] = p
    return out


def tree_snapshot(root):
    """{relative path: bytes or None for dirs} of a directory tree (byte-exact state)."""
    snap = {}
    if not os.path.exists(root):
        return None
    for d, dirs, files in os.walk(root):
        rel = os.path.relpath(d, root)
        snap[rel + "/"] = None
        for f in files:
            p = os.path.join(d, f)
            try:
                with open(p, "rb") as fh:
                    snap[os.path.normpath(os.path.join(rel, f))] = fh.read()
            except OSError:
                snap[os.path.normpath(os.path.join(rel, f))] = b"<unreadable>"
    return snap


# --------------------------------------------------------------------------- #
# workload description -> objects
# --------------------------------------------------------------------------- #

def gen_workload(rng, nmax=40, allow_cases=True, kinds=None, nmin=1, exotic=False):
    """A sweep description: grid, case list, or cases x sub-grid, with 1..nmax settings."""
    kinds = kinds or ["int", "float", "str", "tuple:2", "array:3", "list:2x2", "bool", "mixed", "nptime"]
    while True:
        mode = rng.choice(["grid", "grid", "cases", "cases_sub"]) if allow_cases else "grid"
        w = {"mode": mode, "kind": rng.choice(kinds)}
        if mode == "grid":
            w["combos"] = gens.gen_combos(rng, nargs=(1, 4), nvals=(1, 5), max_settings=nmax, exotic=exotic)
            w["names"], w["cases"] = None, None
        else:
            names, cs = gens.gen_cases(rng, nargs=(1, 3), ncases=(1, min(12, nmax)), exotic=exotic)
            w["names"], w["cases"] = names, cs
            w["combos"] = []
            if mode == "cases_sub":
                free = [a for a in gens.ARG_POOL if a not in names]
                w["combos"] = gens.gen_combos(rng, nargs=(1, 2), nvals=(1, 3), names=rng.sample(free, 2),
                                              max_settings=max(1, nmax // len(cs)))
        w["constants"] = gens.gen_constants(rng, 2, exclude=(w["names"] or []) + [a for a, _ in w["combos"]])
        n = gens.n_settings(w["combos"], w["cases"])
        if nmin <= n <= nmax:
            return w


def requested_settings(w):
    """The kwargs (without constants) a direct run evaluates, in direct-run order."""
    combos = [(a, list(v)) for a, v in w["combos"]]
    sub_points = list(refmodel.grid_points(combos)) if combos else [{}]
    if w["cases"]:
        return [{**c, **sp} for c in w["cases"] for sp in sub_points]
    return sub_points


def axes_of(w, combos_sorted):
    """Axes of the full output grid: case args (sorted union), then sub-grid/grid args."""
    combos = [(a, list(v)) for a, v in w["combos"]]
    if combos_sorted:
        combos = sorted(combos, key=lambda x: x[0])
    axes = []
    if w["cases"]:
        axes = [(a, refmodel.sorted_union(c[a] for c in w["cases"])) for a in w["names"]]
    return axes + combos


def compare_nest(result, w, constants, kind, select=None):
    """Label-wise comparison of a nested result with the reference model.

    The nest may follow the given argument order or the crop's canonical (name-sorted)
    order; positions are compared per labelled point either way.  Returns (None, n_missing)
    if it matches under one of the two axis orders, else (description, 0)."""
    swept = (w["names"] or []) + [a for a, _ in w["combos"]]
    req = requested_settings(w)
    wanted = {tuple(probe._cv(p[a]) for a in swept) for p in req}

    def leaf(p):
        v = probe.make(kind, {**p, **constants})
        return v if select is None else v[select]
    real = leaf(req[0])
    first = None
    for combos_sorted in (True, False):
        axes = axes_of(w, combos_sorted)

        def shape_ok(r, i):
            if i == len(axes):
                return True
            if not isinstance(r, (tuple, list)) or len(r) != len(axes[i][1]):
                return False
            return all(shape_ok(x, i + 1) for x in r)
        if not shape_ok(result, 0):
            first = first or "nest does not have the shape of the grid %s" % ([(a, len(v)) for a, v in axes],)
            continue
        bad = None
        nmiss = 0
        for p in refmodel.grid_points(axes):
            idx = tuple(axes[i][1].index(p[axes[i][0]]) for i in range(len(axes)))
            got = refmodel.nest_get(result, idx)
            if tuple(probe._cv(p[a]) for a in swept) in wanted:
                d = refmodel.deep_eq(got, leaf(p))
                if d:
                    bad = "position %s: %s" % (p, d)
                    break
            else:
                nmiss += 1
                if not refmodel.is_missing_like(got, real):
                    bad = "un-requested position %s holds %s" % (p, refmodel._short(got))
                    break
        if bad is None:
            return None, nmiss
        first = first if (first and not combos_sorted) else bad
    return first, 0


def build_probe(kind, logfile, ctl=None, name="probe", by_value=False, hidden=None):
    if by_value:
        ns = probe.byvalue_namespace()
        return ns["Probe"](kind, logfile=logfile, ctl=ctl, name=name, hidden=hidden)
    return probe.Probe(kind, logfile=logfile, ctl=ctl, name=name, hidden=hidden)


def sow(crop, w, shuffle_at_sow=None, spelling="dict", verbosity=0, names_from_farmer=False, constants_as="dict", **kw):
    """Sow the workload `w` on `crop` through the appropriate entry point."""
    combos = [(a, list(v)) for a, v in w["combos"]]
    consts = dict(w["constants"]) or None
    if consts and constants_as == "pairs":
        consts = list(consts.items())
    elif consts and constants_as == "zip":
        consts = zip(list(consts), list(consts.values()))        # a one-shot iterable of (name, value) pairs
    if w["mode"] == "grid" or w.get("via") == "sow_combos":
        extra = {}
        if shuffle_at_sow == "keep":
            extra["shuffle"] = None           # spelled out: "no new setting", the crop keeps the one it was constructed with
        elif shuffle_at_sow is not None:
            extra["shuffle"] = shuffle_at_sow
        crop.sow_combos(gens.spell_combos(combos, spelling), cases=[dict(c) for c in w["cases"]] if w["cases"] else None,
                        constants=consts, verbosity=verbosity, **extra, **kw)
    else:
        names = w["names"]
        if w.get("case_spelling", "dict") == "tuple":
            fn_args, cs = tuple(names), [tuple(c[a] for a in names) for c in w["cases"]]
            if len(names) == 1 and len(w["cases"]) % 2 == 0:
                # one argument: its name as a bare string and the cases as bare values (documented: "iterable[str] or str")
                fn_args, cs = names[0], [c[names[0]] for c in w["cases"]]
        else:
            fn_args, cs = None, [dict(c) for c in w["cases"]]
        if names_from_farmer and isinstance(fn_args, tuple):
            fn_args = None      # positional cases named by the fn_args the crop's Runner was built with
        crop.sow_cases(fn_args, cs, combos=gens.spell_combos(combos, spelling) if combos else None,
                       constants=consts, verbosity=verbosity, **kw)


def run_actor(spec, workdir, timeout=180):
    """Run one crop step in a fresh interpreter (subprocess.run with a timeout, never a Pool).
    Returns ("ok", value) / ("exc", type, msg) / ("died", rc, stderr tail) / ("timeout",)."""
    import sys
    import json
    import subprocess
    import pickle
    n = len(glob.glob(os.path.join(glob.escape(workdir), "actor-*.spec")))
    sp = os.path.join(workdir, "actor-%d.spec" % n)
    spec = dict(spec, out=os.path.join(workdir, "actor-%d.out" % n))
    with open(sp, "wb") as f:          # pickled, so that argument values keep their exact types (numpy scalars, tuples)
        pickle.dump(spec, f)
    try:
        r = subprocess.run([sys.executable, "-m", "vf.actor", sp], timeout=timeout,
                           stdout=subprocess.DEVNULL, stderr=subprocess.PIPE,
                           env=dict(os.environ, VERIF_CHILD="1"))
    except subprocess.TimeoutExpired:
        return ("timeout",)
    if not os.path.exists(spec["out"]):
        return ("died", r.returncode, r.stderr.decode(errors="replace")[-800:])
    return read_pickle(spec["out"])


def stale_settings_scenario(xyzpy, tmp, variant, farmer=False):
    """A long-lived Crop object M has looked at a crop; the crop is then deleted and sown ANEW by another object - another
    grid of the same number of settings (variant 'grid': 2 x 3 -> 3 x 2) or another batching (variant 'batching': 2 batches
    of 5 -> 5 batches of 2), whose settings file happens to have the same size - within the same moment, and the new settings
    file carries the time stamp of the old one (a coarse-grained file system, a directory restored with preserved times).
    What M then reports, grows and reaps is the crop that IS there.  Returns a list of problems (strings)."""
    import os
    from . import probe, refmodel
    name = "stale"
    kind = "int"
    problems = []
    fn = probe.Probe(kind, name="sprobe")
    if variant == "grid":
        g1, g2 = {"a": [1, 2], "b": [1, 2, 3]}, {"a": [1, 2, 3], "b": [1, 2]}
        k1 = k2 = {"batchsize": 2}
    else:
        g1 = g2 = {"a": list(range(1, 11))}
        k1, k2 = {"batchsize": 5}, {"batchsize": 2}

    def mk(kw):
        if farmer:
            return xyzpy.Runner(fn, "y").Crop(name=name, parent_dir=tmp, **kw)
        return xyzpy.Crop(fn=fn, name=name, parent_dir=tmp, **kw)
    a = mk(k1)
    a.sow_combos(g1, verbosity=0)
    settings = os.path.join(crop_dir(tmp, name), "xyz-settings.jbdmp")
    m = xyzpy.Crop(name=name, parent_dir=tmp)
    _ = (m.num_sown_batches, tuple(m.missing_results()), m.is_ready_to_reap(), str(m))
    st = os.stat(settings)
    a.delete_all()
    b = mk(k2)
    b.sow_combos(g2, verbosity=0)
    os.utime(settings, ns=(st.st_atime_ns, st.st_mtime_ns))
    same_size = os.stat(settings).st_size == st.st_size
    fresh = xyzpy.Crop(name=name, parent_dir=tmp)
    # (progress is asked for first: that is when a Crop object looks at the disk again)
    rep_m = (m.num_sown_batches, tuple(m.missing_results()), m.batchsize, m.num_batches)
    rep_f = (fresh.num_sown_batches, tuple(fresh.missing_results()), fresh.batchsize, fresh.num_batches)
    if rep_m != rep_f:
        problems.append("a Crop object that had looked at the earlier crop reports (sown, missing, batchsize, num_batches) = %r for the crop "
                        "sown anew; a freshly loaded one reports %r" % (rep_m, rep_f))
    m.grow_missing()
    res = m.reap()
    if farmer:
        for p in refmodel.grid_points([(k, v) for k, v in g2.items()]):
            try:
                got = res.sel(p)["y"].values.item()
            except Exception as e:
                problems.append("the reaped Dataset cannot be read at %r: %r" % (p, e))
                break
            if refmodel.deep_eq(got, probe.make(kind, p)):
                problems.append("the reaped Dataset holds %r at %r, the function gives %r" % (got, p, probe.make(kind, p)))
                break
    else:
        d, _ = compare_nest(res, {"mode": "grid", "combos": [[k, v] for k, v in g2.items()], "names": None, "cases": None}, {}, kind)
        if d:
            problems.append("the reaped result of the crop sown anew differs from a direct run: " + d)
    return problems, same_size
