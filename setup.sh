#!/bin/bash
# Offline setup: third-party monitor library beside the repo's interpreter + byte-code warm-up.
here="$(cd "$(dirname "$0")" && pwd)"
cd "$here"
export PIP_NO_INDEX=1
if [ ! -d .deps/icontract ]; then
    /venv/bin/python -m pip install -q --no-index --find-links /opt/veriftools/wheels \
        --target "$here/.deps" icontract || exit 1
fi
mkdir -p evidence replays
# smoke test: everything the checks import is importable offline
PYTHONDONTWRITEBYTECODE=1 PYTHONPATH="$here:$here/.deps:/repo" MPLBACKEND=Agg \
    /venv/bin/python -c "import xyzpy, icontract, matplotlib.pyplot, h5netcdf, pandas, vf.common" || exit 1
echo "setup ok"
