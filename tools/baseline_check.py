#!/usr/bin/env python3
"""Run the repository's suite with the guard off and compare with BASELINE.json's stable_pass list."""
import json, os, subprocess, sys, tempfile
import xml.etree.ElementTree as ET
out = tempfile.mktemp(suffix=".xml")
env = {k: v for k, v in os.environ.items() if not k.startswith(("XYZPY_VERIF", "VERIF_"))}
subprocess.run(["/venv/bin/python", "-m", "pytest", "-q", "-p", "no:cacheprovider", "--timeout=900",
                "--continue-on-collection-errors", "-W", "ignore", "--junitxml=" + out], cwd="/repo", env=env,
               stdout=subprocess.DEVNULL, stderr=subprocess.DEVNULL)
passed = set()
for tc in ET.parse(out).getroot().iter("testcase"):
    if not any(ch.tag in ("failure", "error", "skipped") for ch in tc):
        passed.add("%s::%s" % (tc.get("classname"), tc.get("name")))
os.remove(out)
base = json.load(open("/root/.vp/BASELINE.json"))["stable_pass"]
missing = [t for t in base if t not in passed]
print("baseline stable_pass: %d, passing now: %d, missing: %d" % (len(base), len(passed), len(missing)))
for t in missing[:20]:
    print("  NOT PASSING:", t)
sys.exit(1 if missing else 0)
