#!/bin/bash
# tools/seeded_eval.sh <ID> [tier] [extra check ids...]
# Confirm a sub-agent's seeded change (in /tmp/seed/<ID>/seeded/) myself on a scratch copy of /repo HEAD:
#   1. the patch applies; 2. the repository's stable baseline still passes; 3. the demonstration fails with the
#   change and passes without it; 4. run ./check <ID> <tier> (and extra ids) against the patched copy.
# Results are appended to /tmp/seed/<ID>/seeded/eval.txt; nothing is written to /repo.
id="$1"; tier="${2:-quick}"; shift; shift
here="$(cd "$(dirname "$0")/.." && pwd)"
src="/tmp/seed/$id/seeded"
[ -f "$src/patch.diff" ] || { echo "no $src/patch.diff"; exit 2; }
copy=$(mktemp -d /tmp/vf-seeded-XXXXXX)
git -C /repo archive "${VF_BASE:-HEAD}" | tar -x -C "$copy"
out="$src/eval.txt"; : > "$out"
log() { echo "$@" | tee -a "$out"; }
mkdir -p "$copy/seeded" && cp "$src/demo.py" "$copy/seeded/demo.py" 2>/dev/null
run_demo() { (cd "$copy" && PYTHONPATH="$copy" timeout 900 /venv/bin/python seeded/demo.py >/tmp/vf-demo-$$.out 2>&1; echo $?); }
rc0=$(run_demo); log "demo without change: exit $rc0"
if ! (cd "$copy" && git apply --unsafe-paths "$src/patch.diff" 2>/dev/null || patch -p1 -s < "$src/patch.diff"); then log "PATCH DOES NOT APPLY"; rm -rf "$copy"; exit 2; fi
rc1=$(run_demo); log "demo with change: exit $rc1 ($(tail -1 /tmp/vf-demo-$$.out | cut -c1-200))"
# the repository's own suite on the patched copy vs the stable baseline
(cd "$copy" && env -u XYZPY_VERIF /venv/bin/python -m pytest -q -p no:cacheprovider -W ignore --timeout=900 --junitxml="$copy/junit.xml" tests >/dev/null 2>&1)
python3 - "$copy/junit.xml" <<'PY' | tee -a "$out"
import json, sys, xml.etree.ElementTree as ET
passed=set()
for tc in ET.parse(sys.argv[1]).getroot().iter("testcase"):
    if not any(ch.tag in ("failure","error","skipped") for ch in tc):
        passed.add("%s::%s" % (tc.get("classname"), tc.get("name")))
base=json.load(open("/root/.vp/BASELINE.json"))["stable_pass"]
miss=[t for t in base if t not in passed]
print("repository suite on the patched copy: %d passing, baseline tests no longer passing: %d %s" % (len(passed), len(miss), miss[:3]))
PY
rm -rf "$copy/junit.xml" "$copy/seeded" /tmp/vf-demo-$$.out
for cid in "$id" "$@"; do
    o=$(VERIF_REPO="$copy" VERIF_OUT_DIR="$copy/.vf-out" "$here/check" "$cid" "$tier" 2>&1); rc=$?
    log "check $cid $tier on the patched copy: exit $rc, $(echo "$o" | grep -c '^VIOLATION') VIOLATION lines"
    echo "$o" | grep -A2 '^VIOLATION' | head -9 | cut -c1-400 | tee -a "$out"
    echo "$o" | tail -2 | cut -c1-400 | tee -a "$out"
done
rm -rf "$copy"
