#!/usr/bin/env python3
"""mkmutant.py <name> <breaks ids, space separated> <what> (<file> <old> <new>)...
Create mutants/<name>.patch by exact string replacement on a scratch export of /repo HEAD."""
import sys, os, subprocess, tempfile, shutil
name, breaks, what = sys.argv[1:4]
trip = sys.argv[4:]
here = os.path.dirname(os.path.dirname(os.path.abspath(__file__)))
d = tempfile.mkdtemp(prefix="vf-mk-")
try:
    subprocess.run("git -C /repo archive HEAD | tar -x -C %s" % d, shell=True, check=True)
    subprocess.run("cd %s && git init -q && git add -A && git -c user.email=a@b -c user.name=x commit -qm base" % d, shell=True, check=True)
    for i in range(0, len(trip), 3):
        f, old, new = trip[i:i+3]
        p = os.path.join(d, f)
        s = open(p).read()
        if s.count(old) != 1:
            sys.exit("pattern occurs %d times in %s: %r" % (s.count(old), f, old))
        open(p, "w").write(s.replace(old, new))
    diff = subprocess.run("cd %s && git diff" % d, shell=True, check=True, capture_output=True, text=True).stdout
    if not diff.strip():
        sys.exit("empty diff")
    out = os.path.join(here, "mutants", name + ".patch")
    with open(out, "w") as fo:
        fo.write("# breaks: %s\n# what: %s\n" % (breaks, what))
        fo.write(diff)
    print("wrote", out)
finally:
    shutil.rmtree(d, ignore_errors=True)
