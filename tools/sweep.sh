#!/bin/bash
# tools/sweep.sh <tier> <seed...>  -- run every check for each seed from fresh processes; report non-zero exits
cd "$(dirname "$0")/.."
tier="$1"; shift
for seed in "$@"; do
  for id in C01 C02 C03 C04 C05 C06 C07 C08 C09 C10 C11 C12 C13 C14 C15 C16 C17 C18 C19 C20; do
    out=$(VERIF_SEED=$seed VERIF_OUT_DIR=/tmp/vf-sweep-out ./check $id $tier 2>&1); rc=$?
    echo "seed=$seed $id rc=$rc $(echo "$out" | grep -v '^  ' | tail -1 | cut -c1-160)"
    if [ $rc -ne 0 ]; then echo "$out" | grep -v "^  sig" | head -12 | cut -c1-600; fi
  done
done
rm -rf /tmp/vf-sweep-out
