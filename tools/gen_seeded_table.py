#!/usr/bin/env python3
"""Regenerate the table of section 10 of DESIGN.md from seeded/*/meta.json (and the counts in its intro line)."""
import glob, json, os, re
here = os.path.dirname(os.path.dirname(os.path.abspath(__file__)))
rows, caught, missed = [], 0, 0
for d in sorted(glob.glob(os.path.join(here, "seeded", "*"))):
    m = json.load(open(os.path.join(d, "meta.json")))
    summ = str(m.get("summary", "")).replace("|", "/").replace("\n", " ")[:230]
    needs = str(m.get("needs", "")).replace("|", "/").replace("\n", " ")[:200]
    det = str(m.get("detection", "")).replace("|", "/").replace("\n", " ")
    head = re.sub(r"^angle [AB] \([a-z ]+\)\.\s*", "", det, flags=re.I)
    head = re.sub(r"^equivalent object: .*?\.\s+(?=[A-Z])", "", head, flags=re.I)
    if head.upper().startswith("MISSED") or "THEN MISSED" in det.upper() or "- THEN MISSED -" in det.upper():
        missed += 1
    else:
        caught += 1
    rows.append("| %s | %s **Needs:** %s | %s |" % (os.path.basename(d), summ, needs, det))
p = os.path.join(here, "DESIGN.md")
s = open(p).read()
head = "| seeded change | what it changes / what it needs | detection |\n|---|---|---|\n"
i = s.index(head) + len(head)
j = i
lines = s[i:].split("\n")
k = 0
while k < len(lines) and lines[k].startswith("| "):
    k += 1
rest = "\n".join(lines[k:])
s = s[:i] + "\n".join(rows) + "\n" + rest
s = re.sub(r"\*\*\d+ changes over \w+ rounds \([^)]*\): \d+ caught by the checks as they were, \d+ missed at first\.\*\*",
           "**%d changes over fifteen rounds (14 or 15 per property): %d caught by the checks as they were, %d missed at first.**" % (len(rows), caught, missed), s)
open(p, "w").write(s)
print(len(rows), "rows;", caught, "caught as built;", missed, "missed at first")
