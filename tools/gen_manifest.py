#!/usr/bin/env python3
"""Regenerate MANIFEST.json from the property modules present under vf/props/."""
import os
import re
import ast
import json

here = os.path.dirname(os.path.dirname(os.path.abspath(__file__)))
ALL = ["C%02d" % i for i in range(1, 21)]


def consts(path):
    """Module-level string/dict constants without importing (no third-party deps needed)."""
    tree = ast.parse(open(path).read())
    out = {}
    for node in tree.body:
        if isinstance(node, ast.Assign) and len(node.targets) == 1 and isinstance(node.targets[0], ast.Name):
            try:
                out[node.targets[0].id] = ast.literal_eval(node.value)
            except Exception:
                pass
    return out


checks = []
na = []
for pid in ALL:
    p = os.path.join(here, "vf", "props", pid.lower() + ".py")
    if not os.path.exists(p):
        na.append({"property_id": pid, "reason": "check not built yet (runtime monitoring applies; see DESIGN.md section 4)"})
        continue
    c = consts(p)
    if c.get("NOT_APPLICABLE"):
        na.append({"property_id": pid, "reason": c["NOT_APPLICABLE"]})
        continue
    checks.append({
        "property_id": pid,
        "quick_cmd": "./check %s quick" % pid,
        "thorough_cmd": "./check %s thorough" % pid,
        "evidence_file": "/verif/evidence/%s.json" % pid,
        "replay_cmd_template": "./check %s quick --replay {path}" % pid,
        "engine": "vf",
        "level_claimed": {
            "category": c.get("LEVEL", "exploration"),
            "text": c.get("LEVEL_TEXT") or ("Held on the executions produced and observed by the monitors, nothing more: " + c.get("RULE", "")),
            "design_ref": "DESIGN.md section 4, " + pid,
        },
        "level_note": "; ".join(c.get("ASSUMPTIONS", [])) or "see DESIGN.md",
        "technique": c.get("TECHNIQUE", "runtime monitoring"),
    })

manifest = {
    "version": 1,
    "setup_cmd": "./setup.sh",
    "hooks": {
        "guard": "XYZPY_VERIF",
        "enable": "no instrumentation is committed to /repo: every hook (probe functions, wrappers, os/builtins.open shim, "
                  "icontract contracts, audit hooks) is applied from the harness process, which ./check starts with "
                  "XYZPY_VERIF=1 and PYTHONPATH=/verif:/verif/.deps:/repo so the working tree of /repo is what runs",
        "baseline_off_cmd": "cd /repo && /venv/bin/python -m pytest -ra -q -p no:cacheprovider --timeout=900 "
                            "--continue-on-collection-errors",
        "source_commits": [],
        "add_only": True,
    },
    "engines": [{
        "name": "vf",
        "path": "/verif/vf",
        "serves_properties": [c["property_id"] for c in checks],
        "kind_free_text": "runtime monitoring harness: seeded hostile workloads against the real code, call-log and "
                          "file-system event monitors, reference-model oracles, fork-and-kill crash enumeration, "
                          "cooperative scheduler for file-level interleavings, icontract contracts",
    }],
    "checks": checks,
    "notes": "Verdicts are three-valued: exit 0 held on what was observed, exit 1 + VIOLATION line, exit 2 + INCONCLUSIVE "
             "line when a deciding monitor was not reached. Known findings: /verif/known_findings.json.",
    "not_applicable": na,
}
with open(os.path.join(here, "MANIFEST.json"), "w") as f:
    json.dump(manifest, f, indent=1)
print("MANIFEST.json: %d checks, %d not_applicable" % (len(checks), len(na)))
