#!/usr/bin/env python3
"""Validate MANIFEST.json and evidence/*.json against the task schemas (run with python3-vt)."""
import json, sys, glob, os
import jsonschema
here = os.path.dirname(os.path.dirname(os.path.abspath(__file__)))
bad = 0
def check(path, schema):
    global bad
    try:
        jsonschema.validate(json.load(open(path)), json.load(open(schema)))
        print("ok   ", path)
    except Exception as e:
        bad += 1
        print("BAD  ", path, str(e)[:300])
m = os.path.join(here, "MANIFEST.json")
if os.path.exists(m):
    check(m, "/root/.vp/MANIFEST.schema.json")
for p in sorted(glob.glob(os.path.join(here, "evidence", "*.json"))):
    check(p, "/root/.vp/EVIDENCE.schema.json")
sys.exit(1 if bad else 0)
