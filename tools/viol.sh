#!/bin/bash
# tools/viol.sh <ID> [tier]  -- run one shard in-process and print one example message per violation class
here="$(cd "$(dirname "$0")/.." && pwd)"; cd "$here"
export VERIF_REPO="${VERIF_REPO:-/repo}" VERIF_HOME="$here" PYTHONHASHSEED=0 MPLBACKEND=Agg XYZPY_VERIF=1 PYTHONWARNINGS=ignore PYTHONDONTWRITEBYTECODE=1 VERIF_CHILD=1
export PYTHONPATH="$here:$here/.deps:$VERIF_REPO"
out=$(mktemp)
/venv/bin/python -m vf.run "$1" "${2:-quick}" --shard "${3:-0/1}" --out "$out" 2>&1 | tail -3
python3 - "$out" <<'PY'
import json,sys,collections
d=json.load(open(sys.argv[1]))
seen=collections.OrderedDict()
for v in d["violations"]:
    k=json.dumps({k:v["sig"].get(k) for k in ("api","oracle","exc","exc_at","exc_msg")},sort_keys=True)
    seen.setdefault(k,[0,v])[0]+=1
for k,(n,v) in seen.items():
    print("== %dx %s" % (n,k)); print("   ", v["msg"][:600]); print("    case:", json.dumps(v["case"])[:500])
print("inconclusive:", d["inconclusive"][:3]); print("counters:", d["counters"])
PY
rm -f "$out"
