#!/usr/bin/env python3
"""tools/audit_reach.py <tier> <seed...>: run every check for each seed (in parallel), collect the monitors' reach counters
from the evidence files and list every MIN_REACH minimum that is above 60% of the smallest count seen (a false
'inconclusive' waiting to happen) - and every non-zero exit."""
import ast, json, os, shutil, subprocess, sys, tempfile
from concurrent.futures import ThreadPoolExecutor
here = os.path.dirname(os.path.dirname(os.path.abspath(__file__)))
sys.path.insert(0, here)
tier = sys.argv[1]
seeds = sys.argv[2:]
ids = ["C%02d" % i for i in range(1, 21)]
base = tempfile.mkdtemp(prefix="vf-audit-")


def run(job):
    pid, seed = job
    out = os.path.join(base, "%s-%s" % (pid, seed))
    env = dict(os.environ, VERIF_SEED=seed, VERIF_OUT_DIR=out)
    p = subprocess.run([os.path.join(here, "check"), pid, tier], env=env, capture_output=True, text=True)
    obs = {}
    try:
        obs = json.load(open(os.path.join(out, "evidence", pid + ".json")))["coverage"]["observed"]
    except Exception:
        try:
            obs = json.load(open(os.path.join(out, pid + ".json")))["coverage"]["observed"]
        except Exception:
            pass
    return pid, seed, p.returncode, obs, p.stdout[-400:]


jobs = [(p, s) for s in seeds for p in ids]
res = {}
with ThreadPoolExecutor(max_workers=int(os.environ.get("VF_AUDIT_JOBS", "6"))) as ex:
    for pid, seed, rc, obs, tail in ex.map(run, jobs):
        res.setdefault(pid, []).append((seed, rc, obs))
        if rc != 0:
            print("NONZERO %s seed=%s rc=%d: %s" % (pid, seed, rc, tail.strip().split("\n")[-1][:300]))
for pid in ids:
    mr = {}
    for n_ in ast.parse(open(os.path.join(here, "vf", "props", pid.lower() + ".py")).read()).body:
        if isinstance(n_, ast.Assign) and getattr(n_.targets[0], "id", None) == "MIN_REACH":
            mr = ast.literal_eval(n_.value)
    for name, mins in mr.items():
        vals = [o.get(name, 0) for _, _, o in res.get(pid, []) if o]
        if vals and mins.get(tier, 0) > 0.6 * min(vals):
            print("TIGHT %s %s: minimum %s, seen %s" % (pid, name, mins.get(tier), sorted(vals)))
shutil.rmtree(base, ignore_errors=True)
print("audited %d runs" % len(jobs))
