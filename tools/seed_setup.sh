#!/bin/bash
# tools/seed_setup.sh <ID>...   create /tmp/seed/<ID> (detached worktree of /repo HEAD) holding PROPERTY.json (the
# property's own text, nothing from /verif) and FOCUS.txt (one-line summaries of the changes already kept for it).
here="$(cd "$(dirname "$0")/.." && pwd)"
mkdir -p /tmp/seed
for id in "$@"; do
    [ -d "/tmp/seed/$id" ] && git -C /repo worktree remove --force "/tmp/seed/$id"
    git -C /repo worktree add -q --detach "/tmp/seed/$id" HEAD || exit 1
    python3 - "$here" "$id" <<'PY'
import json, sys, glob, os
here, pid = sys.argv[1:3]
for l in open(os.path.join(here, "properties.jsonl")):
    d = json.loads(l)
    if d["id"] == pid:
        json.dump(d, open("/tmp/seed/%s/PROPERTY.json" % pid, "w"), indent=1)
with open("/tmp/seed/%s/FOCUS.txt" % pid, "w") as f:
    f.write("Changes ALREADY tried for this property by other people (do not repeat them or close variants):\n\n")
    for m in sorted(glob.glob(os.path.join(here, "seeded", pid + "-*", "meta.json"))):
        mm = json.load(open(m))
        f.write("- %s\n  (needed: %s)\n" % (str(mm.get("summary", "")).replace("\n", " ")[:400], str(mm.get("needs", "")).replace("\n", " ")[:300]))
PY
done
git -C /repo worktree list | wc -l
