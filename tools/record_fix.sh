#!/bin/bash
# tools/record_fix.sh <Fnn> <PID> <commit> "<breaks ids>" "<what failed>"
# Record a repaired defect: a 'fixed:' line in known_findings.json, a row in the DESIGN.md findings table (section 3),
# and a mutant that reverts the repair (mutants/<pid>-<fnn>-revert.patch).
f="$1"; pid="$2"; c="$3"; breaks="$4"; what="$5"
here="$(cd "$(dirname "$0")/.." && pwd)"
python3 - "$here" "$f" "$pid" "$c" "$what" <<'PY'
import json, sys
here, f, pid, c, what = sys.argv[1:6]
p = here + "/known_findings.json"; d = json.load(open(p))
key = [k for k, v in d.items() if isinstance(v, list) and v and isinstance(v[-1], str) and v[-1].startswith("fixed:")][0]
d[key].append("fixed: property=%s %s %s" % (pid, c, what))
json.dump(d, open(p, "w"), indent=1); open(p, "a").write("\n")
p = here + "/DESIGN.md"; L = open(p).read().split("\n")
idx = [k for k, l in enumerate(L) if l.startswith("| F") and l.rstrip().endswith("|")]
L.insert(idx[-1] + 1, "| %s | %s | %s | %s |" % (f, pid, what.replace("|", "/"), c))
open(p, "w").write("\n".join(L))
PY
low=$(echo "$pid-$f" | tr 'A-Z' 'a-z')
{ echo "# breaks: $breaks"; echo "# what: revert of $c ($f)"; git -C /repo diff "$c" "$c~1" -- xyzpy; } > "$here/mutants/$low-revert.patch"
echo "recorded $f; mutant mutants/$low-revert.patch"
