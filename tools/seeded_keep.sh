#!/bin/bash
# tools/seeded_keep.sh <ID> <slug> "<which checks catch it / what was strengthened>"
# Keep a confirmed seeded change under /verif/seeded/<ID>-<slug>/ (patch.diff, demo.py, meta.json incl. my own runs).
id="$1"; slug="$2"; note="$3"
here="$(cd "$(dirname "$0")/.." && pwd)"
src="/tmp/seed/$id/seeded"; dst="$here/seeded/$id-$slug"
mkdir -p "$dst"
cp "$src/patch.diff" "$dst/patch.diff"; cp "$src/demo.py" "$dst/demo.py"
python3 - "$src" "$dst" "$id" "$note" <<'PY'
import json, sys, os
src, dst, pid, note = sys.argv[1:5]
try:
    meta = json.load(open(os.path.join(src, "meta.json")))
except Exception as e:
    meta = {"property": pid, "summary": "meta.json of the sub-agent was unreadable: %r" % (e,)}
meta["property"] = pid
meta["origin"] = "fresh sub-agent given only the property text and a scratch worktree of /repo HEAD"
ev = open(os.path.join(src, "eval.txt")).read() if os.path.exists(os.path.join(src, "eval.txt")) else ""
meta["confirmed_by_me"] = {"how": "tools/seeded_eval.sh %s: scratch export of /repo HEAD, demo without/with the patch, repository suite vs BASELINE stable_pass, then ./check with VERIF_REPO=<patched copy>" % pid,
                           "transcript": ev.splitlines()[:14]}
meta["detection"] = note
json.dump(meta, open(os.path.join(dst, "meta.json"), "w"), indent=1)
print("kept", dst)
PY
